package pubsub

// Lock scan: at a quiescent point with no API call in flight nothing in the
// library may still hold one of its own mutexes (a goroutine parked in
// Cond.Wait has released its mutex; a parked user validator runs outside the
// library's locks).  A lock that is still held was leaked by a call that
// returned -- typically on an error path -- and the next caller that needs it
// blocks for ever, on a mutex, which no context can interrupt.
//
// The scan walks the object graph from the given roots through the library's
// own types (packages of this module), containers and pointers, and calls
// TryLock on every sync.Mutex / sync.RWMutex it reaches; it never blocks.

import (
	"fmt"
	"reflect"
	"sort"
	"strings"
	"sync"
	"unsafe"
)

var (
	vfMutexT   = reflect.TypeOf(sync.Mutex{})
	vfRWMutexT = reflect.TypeOf(sync.RWMutex{})
)

func vfLocksHeld(roots map[string]any) []string {
	seen := map[unsafe.Pointer]bool{}
	var held []string
	var walk func(v reflect.Value, path string, depth int)
	walk = func(v reflect.Value, path string, depth int) {
		if depth > 12 || !v.IsValid() {
			return
		}
		switch v.Kind() {
		case reflect.Ptr:
			if v.IsNil() {
				return
			}
			p := v.UnsafePointer()
			if seen[p] {
				return
			}
			seen[p] = true
			walk(v.Elem(), path, depth+1)
		case reflect.Interface:
			if v.IsNil() {
				return
			}
			walk(v.Elem(), path, depth+1)
		case reflect.Struct:
			t := v.Type()
			if t == vfMutexT || t == vfRWMutexT {
				if !v.CanAddr() {
					return
				}
				ptr := unsafe.Pointer(v.UnsafeAddr())
				if t == vfMutexT {
					m := (*sync.Mutex)(ptr)
					if m.TryLock() {
						m.Unlock()
					} else {
						held = append(held, path)
					}
				} else {
					m := (*sync.RWMutex)(ptr)
					if m.TryLock() {
						m.Unlock()
					} else {
						held = append(held, path)
					}
				}
				return
			}
			if !strings.Contains(t.PkgPath(), "go-libp2p-pubsub") {
				return // not the library's own type: hosts, contexts, loggers, protobuf messages ...
			}
			for i := 0; i < t.NumField(); i++ {
				f := v.Field(i)
				name := t.Field(i).Name
				if t.Field(i).Anonymous {
					name = t.Field(i).Type.String()
				}
				walk(f, path+"."+name, depth+1)
			}
		case reflect.Map:
			ek := v.Type().Elem().Kind()
			if ek != reflect.Ptr && ek != reflect.Interface && ek != reflect.Map && ek != reflect.Slice {
				return
			}
			iter := v.MapRange()
			n := 0
			for iter.Next() {
				n++
				if n > 64 {
					break
				}
				walk(iter.Value(), path+"[]", depth+1)
			}
		case reflect.Slice, reflect.Array:
			ek := v.Type().Elem().Kind()
			if ek != reflect.Ptr && ek != reflect.Interface && ek != reflect.Struct {
				return
			}
			for i := 0; i < v.Len() && i < 64; i++ {
				walk(v.Index(i), path+"[]", depth+1)
			}
		}
	}
	names := make([]string, 0, len(roots))
	for k := range roots {
		names = append(names, k)
	}
	sort.Strings(names)
	for _, k := range names {
		walk(reflect.ValueOf(roots[k]), k, 0)
	}
	sort.Strings(held)
	// one report per field, not per instance
	var out []string
	for i, h := range held {
		if i == 0 || held[i-1] != h {
			out = append(out, h)
		}
	}
	return out
}

var _ = fmt.Sprint
