package pubsub

// C14: after shutdown every API call returns and every library goroutine exits.
//
// Crash-point enumeration: workloads of concurrent API calls (each issued from
// its own goroutine; some park at gates: a gated validator, a blocked stream
// write, an unopened stream, a readiness wait, a consumer waiting for data) are
// built event by event; at EVERY quiescent point of EVERY order the leaf event
// "cancel" cancels the constructor's context.  Then the host's streams are
// closed, virtual time advances past every sleeper, and: every call in flight
// must have returned (calls that take their own context once that context is
// cancelled), every API call is issued again 40 times (more than any channel
// buffer) and must return, no library goroutine may remain, no panic.

import (
	"context"
	"encoding/json"
	"fmt"
	"sort"
	"strings"
	"testing/synctest"
	"time"

	"github.com/libp2p/go-libp2p/core/discovery"
	"github.com/libp2p/go-libp2p/core/peer"
)

type vfStubDiscovery struct{}

func (vfStubDiscovery) Advertise(ctx context.Context, ns string, opts ...discovery.Option) (time.Duration, error) {
	return time.Hour, nil
}
func (vfStubDiscovery) FindPeers(ctx context.Context, ns string, opts ...discovery.Option) (<-chan peer.AddrInfo, error) {
	ch := make(chan peer.AddrInfo)
	close(ch)
	return ch, nil
}

type vfCall struct {
	name   string
	done   chan struct{}
	cancel context.CancelFunc // for calls that take their own context
	ownCtx bool
}

type vfC14Inst struct {
	*vfGWInst
	calls     []*vfCall
	started   map[string]bool
	topic     *Topic
	topic2    *Topic
	topic3    *Topic // only ever closed (its own handle: Close holds the topic lock while it waits for the loop)
	sub       *Subscription
	evh       *TopicEventHandler
	disc      bool
	cancelled bool
	busy      chan struct{} // non-nil while the event loop is parked inside a thunk of ours
	frozen    string        // canonical node state taken just before the loop was parked (it cannot be asked later)
	heldReply bool          // the loop is parked at the yield point in front of a reply (released like busy)
}

// operations whose request the event loop answers on a response channel: the explorer can park the loop between
// accepting such a request and answering it ("opreply:<name>")
var vfC14ReplyOps = []string{"join", "subscribe", "relay", "listpeers", "gettopics", "topicclose", "cancelsub"}

const vfC14ReplyKey = "loop-reply|<none>"

// vfC14BusyCopies: an operation issued while the event loop is busy parks at its hand-off to the loop; when the loop
// comes back after the cancellation, its select takes either one of the waiting hand-offs or the cancelled
// context, at random (Go's select; not ownable).  With this many copies waiting on the same channel, a hand-off
// that does not itself watch the PubSub context is left behind in all but 2^-16 of the runs.
const vfC14BusyCopies = 16

// the API surface: name -> call (ctx is only used by calls that take one)
func (in *vfC14Inst) ops() map[string]func(ctx context.Context) {
	g := in.g
	ps := g.n.ps
	gossip := g.n.gs != nil
	m := map[string]func(ctx context.Context){
		"join":        func(context.Context) { ps.Join(fmt.Sprintf("j%d", len(in.calls))) },
		"subscribe":   func(context.Context) { in.topic.Subscribe() },
		"subscribe2":  func(context.Context) { ps.Subscribe("other") },
		"publish":     func(context.Context) { in.topic.Publish(context.Background(), []byte("x")) },
		"publish-ctx": func(ctx context.Context) { in.topic.Publish(ctx, []byte("y")) },
		"publish-ready": func(ctx context.Context) {
			in.topic.Publish(ctx, []byte("z"), WithReadiness(MinTopicSize(5)))
		},
		"publish-legacy": func(context.Context) { ps.Publish("t", []byte("w")) },
		"relay": func(context.Context) {
			if c, err := in.topic.Relay(); err == nil {
				c()
			}
		},
		"regval": func(context.Context) {
			ps.RegisterTopicValidator("vt", func(context.Context, peer.ID, *Message) bool { return true })
		},
		"unregval": func(context.Context) { ps.UnregisterTopicValidator("vt") },
		"evhandler": func(context.Context) {
			if h, err := in.topic.EventHandler(); err == nil {
				h.Cancel()
			}
		},
		"nextevent": func(ctx context.Context) { in.evh.NextPeerEvent(ctx) },
		"next":      func(ctx context.Context) { in.sub.Next(ctx) },
		"cancelsub": func(context.Context) {
			if s, err := in.topic.Subscribe(); err == nil {
				s.Cancel()
			}
		},
		"listpeers": func(context.Context) { ps.ListPeers("t"); in.topic.ListPeers() },
		"gettopics": func(context.Context) { ps.GetTopics() },
		"blacklist": func(context.Context) { ps.BlacklistPeer(vfIdentity("zz").id) },
		"topicclose": func(context.Context) {
			if t, err := ps.Join(fmt.Sprintf("c%d", len(in.calls))); err == nil {
				t.Close()
			}
		},
		// Close on a handle that stays in use (a handle of its own): whatever way Close ends, the handle has to
		// stay usable, i.e. answer every later call with an error instead of blocking it
		"topic3close": func(context.Context) { in.topic3.Close() },
		"batch": func(context.Context) {
			var b MessageBatch
			in.topic.AddToBatch(context.Background(), &b, []byte("b1"))
			ps.PublishBatch(&b)
		},
	}
	if gossip {
		m["adddirect"] = func(context.Context) { ps.AddDirectPeer(peer.AddrInfo{ID: vfIdentity("dd").id}) }
		m["rmdirect"] = func(context.Context) { ps.RemoveDirectPeer(vfIdentity("dd").id) }
		m["setscore"] = func(context.Context) {
			// (on its own topic handle: SetScoreParams takes the topic's write lock, and a goroutine waiting for a
			// mutex is not durably blocked, which would wedge the synctest bubble behind a parked Publish)
			in.topic2.SetScoreParams(&TopicScoreParams{TopicWeight: 1, TimeInMeshQuantum: time.Second, InvalidMessageDeliveriesWeight: -1, InvalidMessageDeliveriesDecay: 0.5})
		}
		m["feedback"] = func(context.Context) { ps.PeerFeedback("t", vfIdentity("a").id, PeerFeedbackUsefulMessage) }
	}
	return m
}

var vfC14OwnCtx = map[string]bool{"publish-ctx": true, "publish-ready": true, "nextevent": true, "next": true}

func (in *vfC14Inst) start(name string) *vfCall {
	f := in.ops()[name]
	ctx, cancel := context.WithCancel(context.Background())
	c := &vfCall{name: name, done: make(chan struct{}), cancel: cancel, ownCtx: vfC14OwnCtx[name]}
	in.calls = append(in.calls, c)
	go func() {
		defer close(c.done)
		f(ctx)
	}()
	return c
}

func (c *vfCall) finished() bool {
	select {
	case <-c.done:
		return true
	default:
		return false
	}
}

func (in *vfC14Inst) Enabled() []string {
	var evs []string
	if in.sc.Cfg.Extra["no_ops"] != "" {
		// a scenario about what the node itself has in flight: no API workload on top
		return in.vfGWInst.Enabled()
	}
	for _, name := range vfSortedKeys(in.ops()) {
		if !in.started[name] {
			evs = append(evs, "op:"+name)
		}
	}
	if in.busy != nil {
		return evs // nothing else moves while the loop is parked
	}
	evs = append(evs, "busy")
	for _, name := range vfC14ReplyOps {
		if !in.started[name] {
			evs = append(evs, "opreply:"+name)
		}
	}
	for _, e := range in.vfGWInst.Enabled() {
		evs = append(evs, e)
	}
	return evs
}

func (in *vfC14Inst) Apply(ev string, judge bool) string {
	if ev == "cancel" {
		return in.shutdown(judge)
	}
	if ev == "busy" {
		// the event loop is busy (parked in a thunk, as it would be in a slow user callback) from here on
		in.lastEv = ev
		in.frozen = in.vfGWInst.Canon()
		in.busy = make(chan struct{})
		gate := in.busy
		ps := in.g.n.ps
		go func() {
			select {
			case ps.eval <- func() { <-gate }:
			case <-ps.ctx.Done():
			}
		}()
		synctest.Wait()
		return ""
	}
	if strings.HasPrefix(ev, "opreply:") {
		// the event loop accepts the request of this operation and is then held right in front of its reply: from
		// here on it is busy, with one caller waiting for an answer that is already computed
		name := ev[len("opreply:"):]
		in.started[name] = true
		in.lastEv = ev
		frozen := in.vfGWInst.Canon()
		g := in.g
		g.ymu.Lock()
		g.yArmed[vfC14ReplyKey] = true
		g.ymu.Unlock()
		in.start(name)
		synctest.Wait()
		_, parked := g.yieldState()
		held := false
		for _, k := range parked {
			if k == vfC14ReplyKey {
				held = true
			}
		}
		if held {
			in.frozen = frozen
			in.busy = make(chan struct{})
			in.heldReply = true
			gate := in.busy
			go func() { <-gate; g.releaseYield(vfC14ReplyKey) }()
		} else {
			g.ymu.Lock()
			delete(g.yArmed, vfC14ReplyKey)
			g.ymu.Unlock()
			in.g.collect()
		}
		return ""
	}
	if strings.HasPrefix(ev, "op:") {
		name := ev[3:]
		in.started[name] = true
		in.lastEv = ev
		in.start(name)
		if in.busy != nil && name != "setscore" && name != "topic3close" {
			// (SetScoreParams and Close park at their hand-off holding the topic's write lock: further copies would
			// wait for that mutex, which is not a durable block, and wedge the bubble)
			for i := 1; i < vfC14BusyCopies; i++ {
				in.start(name)
			}
		}
		synctest.Wait()
		in.g.collect()
		return ""
	}
	return in.vfGWInst.Apply(ev, judge)
}

func (in *vfC14Inst) shutdown(judge bool) string {
	g := in.g
	in.lastEv = "cancel"
	pendingBefore := 0
	var parked []string
	for _, c := range in.calls {
		if !c.finished() {
			pendingBefore++
			parked = append(parked, c.name)
		}
	}
	if judge {
		in.count("cancellation_points")
		if pendingBefore > 0 {
			in.count("cancellations_with_calls_in_flight")
		}
		if len(g.pendingVals()) > 0 {
			in.count("cancellations_with_validation_in_flight")
		}
	}
	g.n.cancel()
	in.cancelled = true
	synctest.Wait()
	if g.cfg.Extra["validators_ignore_ctx"] != "" {
		// validators that ignore their context end only now, after the event loop has gone: what their workers do
		// next (mark the next message seen, report a verdict) happens on the way down
		// (a worker may pick the next queued message instead of noticing the cancellation -- the select is the
		// runtime's -- and park in the validator again: keep ending them until none is left)
		for round := 0; round < 8; round++ {
			n := 0
			g.vmu.Lock()
			for _, inv := range g.valPend {
				if inv.gate != nil {
					inv.gate <- ValidationAccept
					inv.gate = nil
					n++
				}
			}
			g.vmu.Unlock()
			synctest.Wait()
			if n == 0 {
				break
			}
		}
	}
	if in.busy != nil {
		if judge {
			in.count("cancellations_with_the_loop_busy")
			if in.heldReply {
				in.count("cancellations_with_the_loop_held_before_a_reply")
			}
		}
		close(in.busy) // the loop comes back to find the context cancelled and hand-offs waiting
		synctest.Wait()
	}
	// the host goes down: streams close, pending dials fail
	for _, name := range g.order {
		if g.gated[name] {
			g.setGate(name, false)
		}
		if g.conn[name] {
			g.w.disconnect(g.fakes[name].ident.id, g.n.id())
			g.conn[name] = false
		}
	}
	g.w.mu.Lock()
	for k, ch := range g.w.release {
		close(ch)
		delete(g.w.release, k)
	}
	for k := range g.w.policy {
		g.w.policy[k] = vfStreamFail
	}
	g.w.mu.Unlock()
	synctest.Wait()
	vfAdvance(45 * time.Second)
	// 1. calls in flight at the cancellation point
	for _, c := range in.calls {
		if c.finished() {
			continue
		}
		if c.ownCtx {
			c.cancel() // these are only required to return once their own context is cancelled
			synctest.Wait()
			vfAdvance(time.Second)
		}
		if !c.finished() {
			in.bad("c14:call-in-flight-blocks:"+c.name, "%s was in progress when the context was cancelled and never returned (parked calls at that point: %v)", c.name, parked)
		}
	}
	// Lock scan (see locks.go): a call that has returned must not have left one of the library's mutexes locked -- the
	// next caller would block on it for ever, and a goroutine blocked on a mutex wedges the bubble instead of failing
	// the check. Done once the calls that were in flight at the cancellation have returned, and again after every API
	// call has been made once more.
	lockScan := func(stage string) (string, bool) {
		for _, c := range in.calls {
			if !c.finished() {
				return "", false // (a call still in flight may rightfully hold a lock; it has been reported above)
			}
		}
		roots := map[string]any{"PubSub": g.n.ps, "Topic(t)": in.topic, "Topic(t2)": in.topic2, "Topic(t3)": in.topic3, "Subscription": in.sub, "TopicEventHandler": in.evh}
		held := vfLocksHeld(roots)
		for _, h := range held {
			in.bad("c14:lock-held-after-return:"+h, "after the context was cancelled and every API call (%s) had returned, %s is still locked: a call left it locked on its way out, and the next call that needs it blocks for ever", stage, h)
		}
		in.count("lock_scans_after_cancellation")
		return fmt.Sprintf("parked=%v locks=%v", parked, held), len(held) > 0
	}
	if obs, bad := lockScan("in flight at the cancellation"); bad {
		return obs
	}
	// 2a. every API call once after cancellation
	{
		var first []*vfCall
		for _, name := range vfSortedKeys(in.ops()) {
			f := in.ops()[name]
			ctx, cancel := context.WithCancel(context.Background())
			c := &vfCall{name: name, done: make(chan struct{}), cancel: cancel, ownCtx: vfC14OwnCtx[name]}
			first = append(first, c)
			go func() {
				defer close(c.done)
				f(ctx)
			}()
			synctest.Wait()
			if !c.finished() && c.ownCtx {
				c.cancel()
				synctest.Wait()
			}
		}
		vfAdvance(time.Second)
		allBack := true
		for _, c := range first {
			if !c.finished() {
				allBack = false // reported by the repeated round below
			}
		}
		if allBack {
			if obs, bad := lockScan("made once after the cancellation"); bad {
				return obs
			}
		}
	}
	// 2. every API call again, 40 times each, after cancellation
	var post []*vfCall
	for _, name := range vfSortedKeys(in.ops()) {
		name := name
		f := in.ops()[name]
		ctx, cancel := context.WithCancel(context.Background())
		c := &vfCall{name: name, done: make(chan struct{}), cancel: cancel, ownCtx: vfC14OwnCtx[name]}
		post = append(post, c)
		go func() {
			defer close(c.done)
			for i := 0; i < 40; i++ {
				f(ctx)
				if c.ownCtx && ctx.Err() != nil {
					return
				}
			}
		}()
	}
	synctest.Wait()
	vfAdvance(30 * time.Second)
	for _, c := range post {
		if !c.finished() && c.ownCtx {
			c.cancel()
			synctest.Wait()
			vfAdvance(time.Second)
		}
		if !c.finished() {
			in.bad("c14:call-after-cancel-blocks:"+c.name, "%s, called repeatedly (<= 40 times) after the context was cancelled, blocks forever", c.name)
		}
	}
	// 3. goroutines: nothing the library started may remain
	var lib []string
	for _, gr := range vfLeftovers() {
		created := gr
		if i := strings.LastIndex(gr, "created by "); i >= 0 {
			created = gr[i:]
		}
		if strings.Contains(created, "vfC14Inst") || strings.Contains(created, ".vf") || strings.Contains(created, "(*vf") {
			continue // a harness goroutine stuck inside a call: reported above
		}
		line := vfFirstLine(created)
		lib = append(lib, strings.TrimPrefix(line, "created by "))
	}
	sort.Strings(lib)
	for _, l := range lib {
		fn := strings.Fields(l)[0]
		in.bad("c14:goroutine-leak:"+fn, "a goroutine created by %s is still alive after the context was cancelled, the host's streams were closed and 75 virtual seconds passed", fn)
	}
	return fmt.Sprintf("parked=%v", parked)
}

func (in *vfC14Inst) Canon() string {
	var st []string
	for _, c := range in.calls {
		st = append(st, fmt.Sprintf("%s:%v", c.name, c.finished()))
	}
	sort.Strings(st)
	if in.busy != nil {
		return in.frozen + "\nLOOP-BUSY calls=" + strings.Join(st, ",")
	}
	return in.vfGWInst.Canon() + "\ncalls=" + strings.Join(st, ",")
}

func (in *vfC14Inst) Finish(judge bool) string {
	if !in.cancelled {
		// release everything that is parked so that the execution can end
		if in.busy != nil {
			close(in.busy)
			in.busy = nil
			synctest.Wait()
		}
		for _, c := range in.calls {
			c.cancel()
		}
	}
	return in.vfGWInst.Finish(judge)
}

func vfC14Scenarios(thorough bool) []*vfGWScenario {
	var out []*vfGWScenario
	d := 3
	if thorough {
		d = 4
	}
	msgs := map[string]vfMsgSpec{"m1": {Topic: "t", Author: "x", Seq: 1, Size: 8}}
	for _, router := range []string{"gossip", "flood", "random"} {
		proto := map[string]string{"flood": "fs", "random": "rs", "gossip": "v11"}[router]
		peers := []vfPeerCfg{{Name: "a", Proto: proto, IP: "10.0.0.1"}, {Name: "h", Proto: proto, IP: "10.0.0.2"}}
		for _, disc := range []string{"", "disc"} {
			name := router
			if disc != "" {
				name += "-discovery"
			}
			out = append(out, &vfGWScenario{Name: name, Cfg: vfGWCfg{Router: router, Peers: peers, Topics: []string{"t"}, Params: "d2", Scoring: router == "gossip", QueueSize: 2,
				Prefix: []string{"conn:a", "sub:a:t", "hold:h", "conn:h"}, Extra: map[string]string{"discovery": disc, "park_local": "1", "leak_is_violation": "1"},
				Validators: []vfValCfg{{Name: "V", Topic: "t", Inline: true, Gated: true, Verdict: "A", GateOnly: []string{"m1", "local:x"}}}},
				Alphabet: []string{"gate:a", "pub:a:m1", "vrel:V:m1:A", "release:h"}, Msgs: msgs, Depth: d, Leaf: []string{"cancel"}})
		}
	}
	// the non-default last-seen cache, with messages waiting in the validation queue behind a parked worker: they are
	// marked seen after the event loop has gone (and has told the cache it is done)
	for _, router := range []string{"gossip", "flood"} {
		proto := map[string]string{"flood": "fs", "gossip": "v11"}[router]
		peers := []vfPeerCfg{{Name: "a", Proto: proto, IP: "10.0.0.1"}, {Name: "h", Proto: proto, IP: "10.0.0.2"}}
		m2 := map[string]vfMsgSpec{"m1": {Topic: "t", Author: "x", Seq: 1, Size: 8}, "m2": {Topic: "t", Author: "x", Seq: 2, Size: 8}}
		out = append(out, &vfGWScenario{Name: router + "-lastseen", Cfg: vfGWCfg{Router: router, Peers: peers, Topics: []string{"t"}, Params: "d2", QueueSize: 2, Strategy: "last", Workers: 1,
			Prefix: []string{"conn:a", "sub:a:t", "conn:h", "join:t"}, Extra: map[string]string{"leak_is_violation": "1", "no_ops": "1", "validators_ignore_ctx": "1"},
			Validators: []vfValCfg{{Name: "V", Topic: "t", Inline: true, Gated: true, Verdict: "A"}}},
			Alphabet: []string{"pub:a:m1", "pub:a:m2", "pub:h:m2", "vrel:V:m1:A", "vrel:V:m2:A", "lpub:t:p1"}, Msgs: m2, Depth: d + 1, Leaf: []string{"cancel"}})
	}
	// a mesh peer that has stopped reading: its queue fills up with forwarded messages and with the urgent IDONTWANTs
	// the loop sends before validation; whatever the loop does with an RPC that no longer fits, it must not wait for
	// room that only the loop itself could make
	{
		peers := []vfPeerCfg{{Name: "a", Proto: "v12", IP: "10.0.0.1"}, {Name: "h", Proto: "v12", IP: "10.0.0.2"}}
		m3 := map[string]vfMsgSpec{"m1": {Topic: "t", Author: "x", Seq: 1, Size: 32}, "m2": {Topic: "t", Author: "x", Seq: 2, Size: 32}, "m3": {Topic: "t", Author: "x", Seq: 3, Size: 32}, "m4": {Topic: "t", Author: "x", Seq: 4, Size: 32}}
		out = append(out, &vfGWScenario{Name: "gossip-stalled-mesh-peer", Cfg: vfGWCfg{Router: "gossip", Peers: peers, Topics: []string{"t"}, Params: "d2", Scoring: true, QueueSize: 2,
			Prefix: []string{"conn:a", "sub:a:t", "conn:h", "sub:h:t", "join:t", "graft:a:t", "gate:a"}, Extra: map[string]string{"leak_is_violation": "1", "no_ops": "1"}},
			Alphabet: []string{"pub:h:m1", "pub:h:m2", "pub:h:m3", "pub:h:m4", "lpub:t:p1", "hb", "ungate:a"}, Msgs: m3, Depth: d + 1, Leaf: []string{"cancel"}})
	}
	// validations in flight with several asynchronous validators (default + topic) whose verdicts arrive in every
	// order, among them a Reject that ends the collection early while the other validator is still running
	for _, verdicts := range [][2]string{{"A", "R"}, {"R", "A"}, {"R", "R"}, {"I", "R"}} {
		peers := []vfPeerCfg{{Name: "a", Proto: "v11", IP: "10.0.0.1"}, {Name: "h", Proto: "v11", IP: "10.0.0.2"}}
		m2 := map[string]vfMsgSpec{"m1": {Topic: "t", Author: "x", Seq: 1, Size: 8}, "m2": {Topic: "t", Author: "x", Seq: 2, Size: 8}}
		out = append(out, &vfGWScenario{Name: "gossip-two-async-" + verdicts[0] + verdicts[1], Cfg: vfGWCfg{Router: "gossip", Peers: peers, Topics: []string{"t"}, Params: "d2", Scoring: true, QueueSize: 2,
			Prefix: []string{"conn:a", "sub:a:t", "conn:h", "join:t"}, Extra: map[string]string{"leak_is_violation": "1", "no_ops": "1"},
			Validators: []vfValCfg{{Name: "D", Gated: true, Verdict: verdicts[0]}, {Name: "V", Topic: "t", Gated: true, Verdict: verdicts[1]}}},
			Alphabet: []string{"pub:a:m1", "pub:a:m2", "vrel:D:m1:" + verdicts[0], "vrel:V:m1:" + verdicts[1], "vrel:D:m2:" + verdicts[0], "vrel:V:m2:" + verdicts[1]},
			Msgs:     m2, Depth: d + 1, Leaf: []string{"cancel"}})
	}
	return out
}

func vfC14Mk(x *vfExec, sc *vfGWScenario) vfInstance {
	var extra []Option
	if sc.Cfg.Extra["discovery"] != "" {
		extra = append(extra, WithDiscovery(vfStubDiscovery{}))
	}
	base := newVfGWInst(x, sc, nil, extra...)
	in := &vfC14Inst{vfGWInst: base, started: map[string]bool{}, disc: sc.Cfg.Extra["discovery"] != ""}
	in.topic = base.g.topic("t")
	in.topic2 = base.g.topic("t2")
	in.topic3 = base.g.topic("t3")
	var err error
	if in.sub, err = in.topic.Subscribe(); err != nil {
		panic(err)
	}
	if in.evh, err = in.topic.EventHandler(); err != nil {
		panic(err)
	}
	// drain the initial events of the handler so that nextevent parks
	for i := 0; i < 4; i++ {
		ctx, cancel := context.WithCancel(context.Background())
		done := make(chan struct{})
		go func() { in.evh.NextPeerEvent(ctx); close(done) }()
		synctest.Wait()
		cancel()
		<-done
	}
	synctest.Wait()
	base.g.clearStep()
	base.last = base.g.snap()
	return in
}

func init() {
	vfRegister("C14", &vfCheck{
		run:    func(r *vfRun) { vfRunGWScenarios(r, vfC14Scenarios(r.thorough), vfC14Mk) },
		replay: func(r *vfRun, raw json.RawMessage) { vfReplayGWScenario(r, raw, vfC14Mk) },
	})
}
