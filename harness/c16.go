package pubsub

// C16: a blacklisted peer can neither inject messages nor receive traffic.

import (
	"encoding/json"
	"fmt"
	"sort"
	"strings"
)

type vfC16Mon struct {
	black   map[string]string // peer -> how ("api" / "impl")
	parked  map[string]bool   // messages that were inside the validation pipeline when a blacklisting happened
	handled map[string]bool   // messages whose RPC was handled (counted once)
	counted int
	backlog map[string]int // RPCs that were waiting in the peer's queue when it was blacklisted through the API (the queue
	// leaves the node's reachable state then, but its writer still holds it: part of the state for the search)
}

func vfC16Canon(in *vfGWInst) string {
	m := in.mon.(*vfC16Mon)
	var l []string
	for k, v := range m.black {
		l = append(l, k+"="+v)
	}
	sort.Strings(l)
	var b []string
	for k, v := range m.backlog {
		b = append(b, fmt.Sprintf("%s:%d", k, v))
	}
	sort.Strings(b)
	return strings.Join(l, ",") + "|parked=" + strings.Join(vfKeys(m.parked), ",") + "|backlog=" + strings.Join(b, ",")
}

func vfC16Oracle(in *vfGWInst, evFull string, pre, post *vfSnap) {
	g := in.g
	if !pre.OK || !post.OK {
		return
	}
	m := in.mon.(*vfC16Mon)
	ev, _ := vfSplitChoice(evFull)
	f := strings.Split(ev, ":")
	switch f[0] {
	case "bl", "blimpl":
		how := "api"
		if f[0] == "blimpl" {
			how = "impl"
		}
		if _, already := m.black[f[1]]; !already || how == "api" {
			m.black[f[1]] = how
		}
		if how == "api" && pre.QueueLen[f[1]] > 0 {
			m.backlog[f[1]] = pre.QueueLen[f[1]]
		}
		// messages inside the pipeline at this moment are counted, not judged (DESIGN.md §5.1)
		for _, p := range g.pendingVals() {
			m.parked[p[strings.IndexByte(p, '|')+1:]] = true
		}
		if f[0] == "bl" {
			x := f[1]
			if post.Queues[x] {
				in.bad("c16:queue-not-closed", "after BlacklistPeer(%s) the peer still has an outbound queue", x)
			}
			for t, mp := range post.Topics {
				if mp[x] {
					in.bad("c16:still-in-topic", "after BlacklistPeer(%s) the peer is still listed in topic %s", x, t)
				}
			}
			for t, mp := range post.Mesh {
				if mp[x] {
					in.bad("c16:still-in-mesh", "after BlacklistPeer(%s) the peer is still in mesh[%s]", x, t)
				}
			}
			for t, mp := range post.Fanout {
				if mp[x] {
					in.bad("c16:still-in-fanout", "after BlacklistPeer(%s) the peer is still in fanout[%s]", x, t)
				}
			}
			for _, t := range g.cfg.Topics {
				for _, p := range g.n.ps.ListPeers(t) {
					if vfName(p) == x {
						in.bad("c16:listed", "ListPeers(%s) still returns blacklisted %s", t, x)
					}
				}
			}
			if pre.Queues[x] {
				in.count("blacklisted_while_connected")
			}
			if pre.Mesh["t"][x] {
				in.count("blacklisted_while_in_mesh")
			}
		}
		if len(g.pendingVals()) > 0 {
			in.count("blacklisted_with_message_in_pipeline")
		}
		if g.held[f[1]] && g.conn[f[1]] {
			in.count("blacklisted_between_queue_and_stream")
		}
	}
	// ---- nothing is written to a peer blacklisted through the API (frames released from a blocked write excepted)
	for x, how := range m.black {
		if how != "api" {
			continue
		}
		if len(g.wire[x]) > 0 && !(f[0] == "ungate" && f[1] == x) && !(f[0] == "bl" && f[1] == x) {
			in.bad("c16:sent-to-blacklisted", "traffic was written to blacklisted %s: %s", x, vfRenderRPC(g.wire[x][0].rpc, g.midFn()))
		}
		// when the blocked write is released, the one RPC the writer already held may go out; whatever was still in
		// the (closed) queue may not
		if f[0] == "ungate" && f[1] == x {
			delete(m.backlog, x)
			in.count("blacklisted_with_a_blocked_write")
			if len(g.wire[x]) > 1 {
				in.bad("c16:backlog-sent-to-blacklisted", "%d RPCs were written to blacklisted %s after its blocked write was released (only the one already taken from the queue may go out): then %s", len(g.wire[x]), x, vfRenderRPC(g.wire[x][1].rpc, g.midFn()))
			}
		}
	}
	// ---- later-completing outbound streams are refused
	if f[0] == "release" || f[0] == "conn" {
		x := f[1]
		if _, bad := m.black[x]; bad {
			if f[0] == "release" && post.Queues[x] {
				in.bad("c16:stream-accepted", "outbound stream to blacklisted %s completed and the peer keeps an outbound queue", x)
			}
			if len(g.wire[x]) > 0 {
				in.bad("c16:hello-to-blacklisted", "a hello packet was written to blacklisted %s", x)
			}
			if _, ok := post.Peers[x]; ok {
				in.bad("c16:router-peer", "blacklisted %s became a router peer", x)
			}
			in.count("stream_completed_after_blacklisting")
		}
	}
	// ---- no message from / authored by a blacklisted peer is delivered or forwarded
	judge := func(label, how string, where string) {
		if strings.HasPrefix(label, "local:") {
			return
		}
		spec, ok := g.msgs[label]
		if !ok {
			return
		}
		// which RPC carried it?  the harness knows the sender from the event that injected it
		src := in.state["src:"+label]
		for _, who := range []string{src, spec.Author} {
			if _, bad := m.black[who]; bad && in.state["after:"+label+":"+who] == "1" {
				if m.parked[label] {
					in.count("parked_message_released_after_blacklisting")
					continue
				}
				role := "sent by"
				if who == spec.Author && who != src {
					role = "authored by"
				}
				in.bad("c16:"+how, "message %s %s blacklisted %s was %s", label, role, who, where)
			}
		}
	}
	if f[0] == "pub" && g.conn[f[1]] {
		label := f[2]
		if !m.handled[label] {
			m.handled[label] = true
			in.state["src:"+label] = f[1]
			for _, who := range []string{f[1], g.msgs[label].Author} {
				if _, bad := m.black[who]; bad {
					in.state["after:"+label+":"+who] = "1" // handled after the blacklist moment
					in.count("message_from_blacklisted_handled")
				}
			}
		}
	}
	for _, d := range g.deliv {
		judge(d.id, "delivered", "delivered to "+d.sub)
	}
	for _, name := range g.order {
		for _, r := range g.sentTo(name) {
			for _, pm := range r.GetPublish() {
				judge(g.msgLabel(pm), "forwarded", "forwarded to "+name)
			}
		}
	}
}

func vfC16Scenarios(thorough bool) []*vfGWScenario {
	var out []*vfGWScenario
	d := 5
	if thorough {
		d = 7
	}
	peers := []vfPeerCfg{{Name: "p", Proto: "v11", IP: "10.0.0.1"}, {Name: "q", Proto: "v11", IP: "10.0.0.2"}, {Name: "r", Proto: "v12", IP: "10.0.0.3"}}
	msgs := map[string]vfMsgSpec{
		"m1": {Topic: "t", Author: "p", Seq: 1, Size: 8}, "m2": {Topic: "t", Author: "p", Seq: 2, Size: 8},
		"m3": {Topic: "t", Author: "q", Seq: 3, Size: 8}, "m4": {Topic: "t", Author: "x", Seq: 4, Size: 8},
	}
	base := []string{"conn:q", "conn:r", "sub:q:t", "sub:r:t", "join:t"}
	alphabet := []string{"bl:p", "blimpl:p", "hold:p", "release:p", "conn:p", "disc:p", "sub:p:t", "graft:p:t", "pub:p:m1", "pub:q:m2", "pub:q:m3", "pub:p:m4", "lpub:t:p1", "hb"}
	for _, router := range []string{"gossip", "flood"} {
		for _, tc := range []bool{false, true} {
			name := router
			if tc {
				name += "-timecached"
			}
			pc := peers
			if router == "flood" {
				pc = []vfPeerCfg{{Name: "p", Proto: "fs", IP: "10.0.0.1"}, {Name: "q", Proto: "fs", IP: "10.0.0.2"}, {Name: "r", Proto: "fs", IP: "10.0.0.3"}}
			}
			out = append(out, &vfGWScenario{Name: name, Cfg: vfGWCfg{Router: router, Peers: pc, Topics: []string{"t"}, Params: "d2", Prefix: base, SeenTTL: 3600, BlacklistTC: tc},
				Alphabet: alphabet, Msgs: msgs, Depth: d})
		}
	}
	// a backlog in p's outbound queue (its link is congested) at the moment of the blacklisting
	for _, router := range []string{"gossip", "flood"} {
		pc := peers
		if router == "flood" {
			pc = []vfPeerCfg{{Name: "p", Proto: "fs", IP: "10.0.0.1"}, {Name: "q", Proto: "fs", IP: "10.0.0.2"}, {Name: "r", Proto: "fs", IP: "10.0.0.3"}}
		}
		out = append(out, &vfGWScenario{Name: router + "-backlog", Cfg: vfGWCfg{Router: router, Peers: pc, Topics: []string{"t"}, Params: "d2", SeenTTL: 3600,
			Prefix: append(append([]string{}, base...), "conn:p", "sub:p:t", "graft:p:t", "gate:p")},
			Alphabet: []string{"bl:p", "blimpl:p", "ungate:p", "lpub:t:p1", "lpub:t:p2", "pub:q:m3", "pub:q:m4", "disc:p"}, Msgs: msgs, Depth: d})
	}
	// a message of p parked in (asynchronous, gated) validation while the blacklisting happens
	out = append(out, &vfGWScenario{Name: "pipeline", Cfg: vfGWCfg{Router: "gossip", Peers: peers, Topics: []string{"t"}, Params: "d2", SeenTTL: 3600,
		Prefix: append(append([]string{}, base...), "conn:p", "sub:p:t"), Validators: []vfValCfg{{Name: "V", Topic: "t", Gated: true}}},
		Alphabet: []string{"bl:p", "blimpl:p", "pub:p:m1", "pub:q:m2", "pub:q:m3", "vrel:V:m1:A", "vrel:V:m2:A", "vrel:V:m3:A", "disc:p", "conn:p"}, Msgs: msgs, Depth: d})
	return out
}

func vfC16Mk(x *vfExec, sc *vfGWScenario) vfInstance {
	in := newVfGWInst(x, sc, nil)
	in.mon = &vfC16Mon{black: map[string]string{}, parked: map[string]bool{}, handled: map[string]bool{}, backlog: map[string]int{}}
	in.monCanon = vfC16Canon
	in.oracle = vfC16Oracle
	in.finishFn = func(in *vfGWInst) {
		if tb, ok := in.g.n.ps.blacklist.(*TimeCachedBlacklist); ok {
			tb.tc.Done() // the time-cached blacklist has no lifecycle of its own
		}
	}
	return in
}

func init() {
	vfRegister("C16", &vfCheck{
		run:    func(r *vfRun) { vfRunGWScenarios(r, vfC16Scenarios(r.thorough), vfC16Mk) },
		replay: func(r *vfRun, raw json.RawMessage) { vfReplayGWScenario(r, raw, vfC16Mk) },
	})
}

var _ = fmt.Sprint
