package pubsub

// Canonical dump of the real object graph (reflection walk, unexported fields
// included).  Used (a) as the state key of the explicit-state search, (b)
// unfiltered, as the C13 scanner for residual per-peer state.
//
// Canonicalisation: maps sorted by rendered key, pointers followed once,
// peer IDs rendered by harness label, time.Time relative to the virtual now,
// channels as lengths, funcs as nil/non-nil, sync primitives / contexts /
// loggers / the host skipped.  Every omitted field is listed in vfDumpSkip with
// its justification.

import (
	"fmt"
	"reflect"
	"sort"
	"strings"
	"time"
	"unsafe"

	"github.com/libp2p/go-libp2p/core/peer"
)

// "Type.field" -> why it is not part of the state key.
var vfDumpSkip = map[string]string{
	"PubSub.host":                          "harness object; its state (connections, streams) is dumped by the world itself",
	"PubSub.ctx":                           "lifetime only; cancellation ends the execution",
	"PubSub.logger":                        "no semantic state",
	"PubSub.rpcLogger":                     "no semantic state",
	"PubSub.disc":                          "discovery is configured off except in C14, which does not dedupe on state",
	"PubSub.tracer":                        "fan-out object; the stateful raw tracers (score, gossip tracer, tag tracer, gater) are reached through the router",
	"PubSub.val":                           "validators are fixed per scenario; in-flight validations are harness state (gates)",
	"PubSub.peerFilter":                    "func",
	"PubSub.subFilter":                     "fixed per scenario",
	"PubSub.protoMatchFunc":                "func",
	"PubSub.appSpecificRpcInspector":       "func",
	"PubSub.idGen":                         "fixed per scenario",
	"PubSub.rt":                            "dumped separately (router dump) to keep a stable order",
	"GossipSubRouter.p":                    "back pointer",
	"GossipSubRouter.logger":               "no semantic state",
	"GossipSubRouter.tracer":               "same object as PubSub.tracer",
	"GossipSubRouter.cab":                  "address book is not fed by the harness (no signed peer records) except in PX scenarios, where Connect attempts are observed instead",
	"GossipSubRouter.feature":              "func",
	"GossipSubRouter.reducePXRecords":      "func",
	"GossipSubRouter.protos":               "fixed per scenario",
	"GossipSubRouter.params":               "fixed per scenario",
	"tagTracer.cmgr":                       "harness object; protections are dumped by the world",
	"tagTracer.decayer":                    "nil in the harness (stub conn manager has no decayer)",
	"tagTracer.idGen":                      "fixed",
	"tagTracer.isDirect":                   "func",
	"tagTracer.logger":                     "no semantic state",
	"peerScore.params":                     "fixed per scenario unless SetTopicScoreParams is in the alphabet (then dumped explicitly)",
	"peerScore.idGen":                      "fixed",
	"peerScore.logger":                     "no semantic state",
	"peerScore.host":                       "harness object",
	"peerScore.inspect":                    "func",
	"peerScore.inspectEx":                  "func",
	"peerGater.host":                       "harness object",
	"peerGater.params":                     "fixed per scenario",
	"peerGater.getIP":                      "func",
	"peerGater.logger":                     "no semantic state",
	"gossipTracer.idGen":                   "fixed",
	"extensionsState.reportMisbehavior":    "func",
	"extensionsState.sendRPC":              "func",
	"MessageCache.msgID":                   "func",
	"backoffHistory.duration":              "function of attempts up to a sub-100ms random jitter that no oracle observes",
	"Topic.p":                              "back pointer",
	"Subscription.ctx":                     "lifetime only",
	"Subscription.cancelCh":                "same channel for all",
	"Subscription.filter":                  "func",
	"FirstSeenCache.done":                  "func",
	"LastSeenCache.done":                   "func",
	"validatorImpl.logger":                 "no semantic state",
	"testExtension.sendRPC":                "func",
	"testExtension.onReceiveTestExtension": "func",
}

type vfDumper struct {
	sb      strings.Builder
	now     time.Time
	seen    map[unsafe.Pointer]int
	ptrName func(unsafe.Pointer) string // harness labels for *Subscription etc.
	skip    func(string) bool           // "Type.field" -> omit
	visit   func(path string, v reflect.Value)
	maxLen  int
}

var vfPeerIDType = reflect.TypeOf(peer.ID(""))
var vfTimeType = reflect.TypeOf(time.Time{})
var vfDurationType = reflect.TypeOf(time.Duration(0))

func vfAccessible(v reflect.Value) reflect.Value {
	if v.CanInterface() {
		return v
	}
	if v.CanAddr() {
		return reflect.NewAt(v.Type(), unsafe.Pointer(v.UnsafeAddr())).Elem()
	}
	// copy into addressable memory
	c := reflect.New(v.Type()).Elem()
	vfSetUnexported(c, v)
	return c
}

func vfSetUnexported(dst, src reflect.Value) {
	// src may be obtained from an unexported field (flagRO); clear it through a pointer cast trick
	type flagged struct {
		typ  unsafe.Pointer
		ptr  unsafe.Pointer
		flag uintptr
	}
	f := (*flagged)(unsafe.Pointer(&src))
	const flagRO = (1 << 5) | (1 << 6)
	f.flag &^= flagRO
	dst.Set(src)
}

func (d *vfDumper) w(s string) { d.sb.WriteString(s) }

func (d *vfDumper) skipType(t reflect.Type) bool {
	pp := t.PkgPath()
	switch pp {
	case "sync", "sync/atomic", "context", "log/slog", "internal/sync":
		return true
	}
	return false
}

func (d *vfDumper) key(v reflect.Value) string {
	sub := &vfDumper{now: d.now, seen: d.seen, ptrName: d.ptrName, skip: d.skip}
	sub.dump(v, "")
	return sub.sb.String()
}

func (d *vfDumper) dump(v reflect.Value, path string) {
	if !v.IsValid() {
		d.w("<invalid>")
		return
	}
	if d.visit != nil {
		d.visit(path, v)
	}
	t := v.Type()
	if d.skipType(t) {
		d.w("_")
		return
	}
	if t.Kind() == reflect.Ptr && !v.IsNil() && strings.HasPrefix(t.Elem().Name(), "vf") {
		// harness object: rendered by itself, never walked
		if c, ok := vfAccessible(v).Interface().(interface{ vfCanon() string }); ok {
			d.w(c.vfCanon())
		} else {
			d.w("<" + t.Elem().Name() + ">")
		}
		return
	}
	switch v.Kind() {
	case reflect.Bool:
		fmt.Fprintf(&d.sb, "%v", v.Bool())
	case reflect.Int, reflect.Int8, reflect.Int16, reflect.Int32, reflect.Int64:
		if t == vfDurationType {
			d.w(time.Duration(v.Int()).String())
		} else {
			fmt.Fprintf(&d.sb, "%d", v.Int())
		}
	case reflect.Uint, reflect.Uint8, reflect.Uint16, reflect.Uint32, reflect.Uint64, reflect.Uintptr:
		fmt.Fprintf(&d.sb, "%d", v.Uint())
	case reflect.Float32, reflect.Float64:
		fmt.Fprintf(&d.sb, "%.9g", v.Float())
	case reflect.String:
		if t == vfPeerIDType {
			d.w("@" + vfName(peer.ID(v.String())))
		} else {
			fmt.Fprintf(&d.sb, "%q", v.String())
		}
	case reflect.Chan:
		if v.IsNil() {
			d.w("chan(nil)")
		} else {
			fmt.Fprintf(&d.sb, "chan(%d)", v.Len())
		}
	case reflect.Func:
		if v.IsNil() {
			d.w("func(nil)")
		} else {
			d.w("func")
		}
	case reflect.Interface:
		if v.IsNil() {
			d.w("nil")
			return
		}
		e := v.Elem()
		d.w("(" + e.Type().String() + ")")
		d.dump(e, path+"<"+e.Type().String()+">")
	case reflect.Ptr:
		if v.IsNil() {
			d.w("nil")
			return
		}
		p := unsafe.Pointer(v.Pointer())
		if d.ptrName != nil {
			if n := d.ptrName(p); n != "" {
				d.w("&" + n)
				// still descend once so its contents are part of the state
			}
		}
		if idx, ok := d.seen[p]; ok {
			fmt.Fprintf(&d.sb, "&#%d", idx)
			return
		}
		d.seen[p] = len(d.seen)
		d.w("&")
		d.dump(v.Elem(), path)
	case reflect.Struct:
		if t == vfTimeType {
			tm := vfAccessible(v).Interface().(time.Time)
			if tm.IsZero() {
				d.w("T0")
			} else {
				fmt.Fprintf(&d.sb, "T%+d", int64(tm.Sub(d.now)/time.Millisecond))
			}
			return
		}
		d.w(t.Name() + "{")
		for i := 0; i < t.NumField(); i++ {
			f := t.Field(i)
			if d.skip != nil && d.skip(t.Name()+"."+f.Name) {
				continue
			}
			if strings.HasPrefix(f.Name, "XXX_") {
				continue
			}
			fv := v.Field(i)
			if d.skipType(f.Type) {
				continue
			}
			d.w(f.Name + ":")
			d.dump(vfAccessible(fv), path+"."+f.Name)
			d.w(" ")
		}
		d.w("}")
	case reflect.Map:
		if v.IsNil() {
			d.w("map(nil)")
			return
		}
		type kv struct {
			k string
			v reflect.Value
		}
		var items []kv
		it := v.MapRange()
		for it.Next() {
			items = append(items, kv{d.key(vfAccessibleCopy(it.Key())), vfAccessibleCopy(it.Value())})
		}
		sort.Slice(items, func(i, j int) bool { return items[i].k < items[j].k })
		d.w("map[")
		for _, it := range items {
			d.w(it.k + ":")
			d.dump(it.v, path+"["+it.k+"]")
			d.w(" ")
		}
		d.w("]")
	case reflect.Slice, reflect.Array:
		if v.Kind() == reflect.Slice && v.IsNil() {
			d.w("[]")
			return
		}
		if t.Elem().Kind() == reflect.Uint8 {
			b := make([]byte, v.Len())
			for i := range b {
				b[i] = byte(v.Index(i).Uint())
			}
			if len(b) > 0 && len(b) <= 64 {
				if n := vfName(peer.ID(b)); !strings.HasPrefix(n, "?") {
					d.w("@" + n)
					return
				}
			}
			if len(b) > 48 {
				fmt.Fprintf(&d.sb, "bytes(%d:%s)", len(b), vfHash(string(b)))
			} else {
				fmt.Fprintf(&d.sb, "%x", b)
			}
			return
		}
		d.w("[")
		for i := 0; i < v.Len(); i++ {
			d.dump(vfAccessible(v.Index(i)), fmt.Sprintf("%s[%d]", path, i))
			d.w(" ")
		}
		d.w("]")
	case reflect.UnsafePointer:
		d.w("uptr")
	default:
		fmt.Fprintf(&d.sb, "<%s>", v.Kind())
	}
}

func vfAccessibleCopy(v reflect.Value) reflect.Value {
	if v.CanInterface() {
		return v
	}
	c := reflect.New(v.Type()).Elem()
	vfSetUnexported(c, v)
	return c
}

// vfDump renders any value canonically.
func vfDump(x any, now time.Time, ptrName func(unsafe.Pointer) string) string {
	d := &vfDumper{now: now, seen: map[unsafe.Pointer]int{}, ptrName: ptrName, skip: vfStateSkip}
	d.dump(reflect.ValueOf(x), "")
	return d.sb.String()
}

func vfStateSkip(k string) bool { _, ok := vfDumpSkip[k]; return ok }

// vfScan walks everything reachable from roots (only harness objects and
// lifetime plumbing skipped) and calls visit for every value with its path.
func vfScan(roots map[string]any, skip func(string) bool, visit func(path string, v reflect.Value)) {
	d := &vfDumper{now: time.Now(), seen: map[unsafe.Pointer]int{}, skip: skip, visit: visit}
	names := make([]string, 0, len(roots))
	for k := range roots {
		names = append(names, k)
	}
	sort.Strings(names)
	for _, k := range names {
		d.dump(reflect.ValueOf(roots[k]), k)
	}
}
