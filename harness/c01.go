package pubsub

// C01: complete exactly-once delivery in a connected network of correct nodes.
//
// E-NET: 2-4 real nodes of any router mix on stub hosts in one synctest
// bubble, wired through a link layer that HOLDS every frame between real nodes;
// the explorer decides which link delivers next.  Configurations (labelled
// connected topology x router per node x role per node x optional churn step)
// are enumerated exhaustively; convergence runs with the canonical delivery
// order through the required virtual time; the measured phase (one publish) is
// explored over link-delivery orders within a deviation bound.

import (
	"context"
	"encoding/json"
	"fmt"
	"sort"
	"strings"
	"testing/synctest"
	"time"
)

type vfNetCfg struct {
	N       int      `json:"n"`
	Edges   [][2]int `json:"edges"`
	Routers []string `json:"routers"` // flood random gossip
	Roles   []string `json:"roles"`   // sub sub2 relay pub
	Churn   string   `json:"churn,omitempty"`
	Pub     int      `json:"pub"`
	Dev     []int    `json:"dev,omitempty"` // delivery deviations in the measured phase: step, choice pairs
}

type vfNet struct {
	cfg    *vfNetCfg
	w      *vfWorld
	nodes  []*vfNode
	topics []*Topic
	subs   [][]*Subscription
	relays []RelayCancelFunc
	adj    map[[2]int]bool
}

func vfNetName(i int) string { return fmt.Sprintf("n%d", i) }

func (nt *vfNet) drain(choose func(step, n int) int) (steps int, maxPending int) {
	for guard := 0; guard < 100000; guard++ {
		synctest.Wait()
		links := nt.w.pendingLinks()
		if len(links) == 0 {
			return
		}
		if len(links) > maxPending {
			maxPending = len(links)
		}
		idx := 0
		if choose != nil {
			idx = choose(steps, len(links))
		}
		links[idx].deliverOne()
		steps++
	}
	panic("vf: link drain does not terminate")
}

func (nt *vfNet) settle(heartbeats int) {
	for i := 0; i < heartbeats; i++ {
		nt.drain(nil)
		time.Sleep(time.Second)
	}
	nt.drain(nil)
}

func (nt *vfNet) connect(i, j int) {
	nt.w.connect(nt.nodes[i].id(), nt.nodes[j].id(), fmt.Sprintf("10.0.0.%d", i+1), fmt.Sprintf("10.0.0.%d", j+1))
	nt.adj[[2]int{i, j}], nt.adj[[2]int{j, i}] = true, true
}

func (nt *vfNet) disconnect(i, j int) {
	nt.w.disconnect(nt.nodes[i].id(), nt.nodes[j].id())
	delete(nt.adj, [2]int{i, j})
	delete(nt.adj, [2]int{j, i})
}

func (nt *vfNet) topic(i int) *Topic {
	if nt.topics[i] == nil {
		t, err := nt.nodes[i].ps.Join("t")
		if err != nil {
			panic(err)
		}
		nt.topics[i] = t
	}
	return nt.topics[i]
}

func (nt *vfNet) applyRole(i int, role string) {
	switch role {
	case "sub", "sub2":
		n := 1
		if role == "sub2" {
			n = 2
		}
		for k := 0; k < n; k++ {
			s, err := nt.topic(i).Subscribe()
			if err != nil {
				panic(err)
			}
			nt.subs[i] = append(nt.subs[i], s)
		}
	case "relay":
		c, err := nt.topic(i).Relay()
		if err != nil {
			panic(err)
		}
		nt.relays[i] = c
	}
}

func vfNetBuild(cfg *vfNetCfg) *vfNet {
	nt := &vfNet{cfg: cfg, w: newVfWorld(), adj: map[[2]int]bool{}}
	nt.w.holdAll = true
	nt.nodes = make([]*vfNode, cfg.N)
	nt.topics = make([]*Topic, cfg.N)
	nt.subs = make([][]*Subscription, cfg.N)
	nt.relays = make([]RelayCancelFunc, cfg.N)
	for i := 0; i < cfg.N; i++ {
		opts := []Option{WithMessageSignaturePolicy(StrictNoSign)}
		if cfg.Routers[i] == "gossip" {
			opts = append(opts, WithGossipSubParams(vfGSParams("d2")), WithFloodPublish(false))
		}
		n, err := vfNewNode(nt.w, vfNetName(i), cfg.Routers[i], opts...)
		if err != nil {
			panic(err)
		}
		nt.nodes[i] = n
	}
	for _, e := range cfg.Edges {
		nt.connect(e[0], e[1])
	}
	for i, role := range cfg.Roles {
		nt.applyRole(i, role)
	}
	return nt
}

// interested reports whether node i is part of the overlay (subscriber or relay).
func (nt *vfNet) interested(i int) bool { return len(nt.subs[i]) > 0 || nt.relays[i] != nil }

// overlayOK: the overlay is connected and every publisher-only node touches it.
func (nt *vfNet) overlayOK(pub int) bool {
	var ov []int
	for i := range nt.nodes {
		if nt.interested(i) {
			ov = append(ov, i)
		}
	}
	if len(ov) == 0 {
		return false
	}
	seen := map[int]bool{ov[0]: true}
	stack := []int{ov[0]}
	for len(stack) > 0 {
		x := stack[len(stack)-1]
		stack = stack[:len(stack)-1]
		for _, y := range ov {
			if !seen[y] && nt.adj[[2]int{x, y}] {
				seen[y] = true
				stack = append(stack, y)
			}
		}
	}
	if len(seen) != len(ov) {
		return false
	}
	if !nt.interested(pub) {
		ok := false
		for _, y := range ov {
			if nt.adj[[2]int{pub, y}] {
				ok = true
			}
		}
		return ok
	}
	return true
}

func (nt *vfNet) churn(op string) bool {
	f := strings.Split(op, ":")
	var a, b int
	switch f[0] {
	case "":
		return true
	case "sub":
		fmt.Sscanf(f[1], "%d", &a)
		nt.applyRole(a, "sub")
	case "cancel":
		fmt.Sscanf(f[1], "%d", &a)
		if len(nt.subs[a]) == 0 {
			return false
		}
		s := nt.subs[a][len(nt.subs[a])-1]
		s.Cancel()
		nt.subs[a] = nt.subs[a][:len(nt.subs[a])-1]
	case "resub": // unsubscribe and resubscribe inside the prune backoff
		fmt.Sscanf(f[1], "%d", &a)
		if len(nt.subs[a]) != 1 {
			return false
		}
		nt.subs[a][0].Cancel()
		nt.subs[a] = nil
		nt.drain(nil)
		time.Sleep(time.Second)
		nt.drain(nil)
		nt.applyRole(a, "sub")
	case "relay":
		fmt.Sscanf(f[1], "%d", &a)
		if nt.relays[a] != nil {
			return false
		}
		nt.applyRole(a, "relay")
	case "unrelay":
		fmt.Sscanf(f[1], "%d", &a)
		if nt.relays[a] == nil {
			return false
		}
		nt.relays[a]()
		nt.relays[a] = nil
	case "conn":
		fmt.Sscanf(f[1], "%d-%d", &a, &b)
		if nt.adj[[2]int{a, b}] {
			return false
		}
		nt.connect(a, b)
	case "disc":
		fmt.Sscanf(f[1], "%d-%d", &a, &b)
		if !nt.adj[[2]int{a, b}] {
			return false
		}
		nt.disconnect(a, b)
	}
	return true
}

// run executes one configuration; returns (observation, violation fingerprint/desc or "").
func vfNetRun(cfg *vfNetCfg, count func(string)) (obs string, fp string, desc string, steps int, maxPending int, valid bool) {
	nt := vfNetBuild(cfg)
	defer func() {
		var ns []*vfNode
		ns = append(ns, nt.nodes...)
		vfCh.begin(nil)
		vfTeardown(nt.w, ns...)
	}()
	// convergence: announcements propagate, meshes form, backoffs expire and are swept
	nt.settle(22)
	if cfg.Churn != "" {
		// a churn is one operation or a ';'-separated sequence; the network settles after each
		for _, op := range strings.Split(cfg.Churn, ";") {
			if !nt.churn(op) {
				return "", "", "", 0, 0, false
			}
			nt.settle(24)
		}
	}
	if !nt.overlayOK(cfg.Pub) {
		return "", "", "", 0, 0, false
	}
	valid = true
	// precondition (checked, not assumed): every node's view of topic peers equals the ground truth
	for i, n := range nt.nodes {
		var want []string
		for j := range nt.nodes {
			if j != i && nt.adj[[2]int{i, j}] && nt.interested(j) {
				want = append(want, vfNetName(j))
			}
		}
		got := vfNames(n.ps.ListPeers("t"))
		sort.Strings(want)
		if strings.Join(got, ",") != strings.Join(want, ",") {
			return "", "c01:not-converged", fmt.Sprintf("after settling, ListPeers(t) on %s is %v but its connected interested neighbours are %v", vfNetName(i), got, want), 0, 0, true
		}
		gt := n.ps.GetTopics()
		if (len(nt.subs[i]) > 0) != (len(gt) == 1) {
			return "", "c01:not-converged", fmt.Sprintf("GetTopics on %s is %v with %d subscriptions", vfNetName(i), gt, len(nt.subs[i])), 0, 0, true
		}
	}
	// measured phase
	if err := nt.topic(cfg.Pub).Publish(context.Background(), []byte("payload")); err != nil {
		return "", "c01:publish-error", "Publish failed: " + err.Error(), 0, 0, true
	}
	dev := map[int]int{}
	for i := 0; i+1 < len(cfg.Dev); i += 2 {
		dev[cfg.Dev[i]] = cfg.Dev[i+1]
	}
	steps, maxPending = nt.drain(func(step, n int) int {
		if c, ok := dev[step]; ok && c < n {
			return c
		}
		return 0
	})
	// one round of lazy repair: HistoryGossip + 2 heartbeats
	nt.settle(4)
	var rec []string
	for i := range nt.nodes {
		for k, s := range nt.subs[i] {
			n := 0
			for {
				select {
				case m := <-s.ch:
					if string(m.GetData()) == "payload" {
						n++
					}
					continue
				default:
				}
				break
			}
			rec = append(rec, fmt.Sprintf("%s#%d=%d", vfNetName(i), k, n))
			if n != 1 && fp == "" {
				kind := "lost"
				if n > 1 {
					kind = "duplicated"
				}
				fp = "c01:" + kind + ":" + cfg.Routers[i]
				desc = fmt.Sprintf("subscription #%d of %s (%s, role %s) received the message %d times (publisher %s %s/%s)", k, vfNetName(i), cfg.Routers[i], cfg.Roles[i], n, vfNetName(cfg.Pub), cfg.Routers[cfg.Pub], cfg.Roles[cfg.Pub])
			}
			count("subscriptions_judged")
		}
	}
	return strings.Join(rec, " "), fp, desc, steps, maxPending, true
}

// ---- enumeration

func vfConnectedGraphs(n int) [][][2]int {
	var pairs [][2]int
	for i := 0; i < n; i++ {
		for j := i + 1; j < n; j++ {
			pairs = append(pairs, [2]int{i, j})
		}
	}
	var out [][][2]int
	for mask := 1; mask < 1<<len(pairs); mask++ {
		var es [][2]int
		for k, p := range pairs {
			if mask&(1<<k) != 0 {
				es = append(es, p)
			}
		}
		// connectivity
		seen := map[int]bool{0: true}
		stack := []int{0}
		for len(stack) > 0 {
			x := stack[len(stack)-1]
			stack = stack[:len(stack)-1]
			for _, e := range es {
				for _, y := range [][2]int{{e[0], e[1]}, {e[1], e[0]}} {
					if y[0] == x && !seen[y[1]] {
						seen[y[1]] = true
						stack = append(stack, y[1])
					}
				}
			}
		}
		if len(seen) == n {
			out = append(out, es)
		}
	}
	return out
}

func vfVectors(n int, alphabet []string) [][]string {
	out := [][]string{{}}
	for i := 0; i < n; i++ {
		var next [][]string
		for _, v := range out {
			for _, a := range alphabet {
				next = append(next, append(append([]string{}, v...), a))
			}
		}
		out = next
	}
	return out
}

func vfC01Configs(thorough bool) []*vfNetCfg {
	var out []*vfNetCfg
	routers := []string{"flood", "random", "gossip"}
	roles := []string{"sub", "sub2", "relay", "pub"}
	add := func(n int, graphs [][][2]int, rvs, rolevs [][]string, churns []string) {
		for _, es := range graphs {
			for _, rv := range rvs {
				for _, ro := range rolevs {
					nsub := 0
					for _, x := range ro {
						if x == "sub" || x == "sub2" {
							nsub++
						}
					}
					if nsub == 0 {
						continue
					}
					for _, ch := range churns {
						for pub := 0; pub < n; pub++ {
							if ro[pub] == "relay" {
								continue // a relay-only node does not publish in this alphabet (covered by pub / sub roles)
							}
							out = append(out, &vfNetCfg{N: n, Edges: es, Routers: rv, Roles: ro, Churn: ch, Pub: pub})
						}
					}
				}
			}
		}
	}
	add(2, vfConnectedGraphs(2), vfVectors(2, routers), vfVectors(2, roles), []string{""})
	if thorough {
		add(3, vfConnectedGraphs(3), vfVectors(3, routers), vfVectors(3, roles), []string{"", "cancel:0", "resub:1", "relay:2", "sub:2", "conn:0-2", "disc:0-1", "unrelay:1"})
		add(3, vfConnectedGraphs(3), vfVectors(3, routers), vfVectors(3, []string{"sub", "relay", "pub"}), vfChurnPairs(3, false))
		g4 := vfConnectedGraphs(4)
		add(4, g4, [][]string{{"gossip", "gossip", "gossip", "gossip"}, {"gossip", "flood", "gossip", "random"}, {"flood", "gossip", "random", "gossip"}, {"random", "random", "gossip", "flood"}},
			vfVectors(4, []string{"sub", "relay", "pub"}), []string{""})
	} else {
		add(3, vfConnectedGraphs(3), vfVectors(3, routers), vfVectors(3, roles), []string{""})
		add(3, vfConnectedGraphs(3), [][]string{{"gossip", "gossip", "gossip"}, {"gossip", "flood", "random"}, {"random", "gossip", "flood"}, {"flood", "random", "gossip"}}, vfVectors(3, []string{"sub", "relay", "pub"}),
			[]string{"cancel:0", "resub:1", "relay:2", "sub:2", "conn:0-2", "disc:0-1", "unrelay:1"})
		// two-step role churn on one node (subscribe / cancel / relay / unrelay in every order): a node's
		// announced interest must follow the union of its subscriptions and relays
		add(3, vfConnectedGraphs(3), [][]string{{"gossip", "gossip", "gossip"}, {"gossip", "flood", "random"}, {"random", "gossip", "flood"}, {"flood", "random", "gossip"}}, vfVectors(3, []string{"sub", "relay", "pub"}),
			vfChurnPairs(3, true))
		// the six unlabelled topologies on four nodes: path, star, cycle, paw, diamond, complete
		g4 := [][][2]int{{{0, 1}, {1, 2}, {2, 3}}, {{0, 1}, {0, 2}, {0, 3}}, {{0, 1}, {1, 2}, {2, 3}, {3, 0}}, {{0, 1}, {1, 2}, {2, 0}, {2, 3}}, {{0, 1}, {1, 2}, {2, 3}, {3, 0}, {0, 2}}, {{0, 1}, {0, 2}, {0, 3}, {1, 2}, {1, 3}, {2, 3}}}
		add(4, g4, [][]string{{"gossip", "gossip", "gossip", "gossip"}, {"gossip", "flood", "gossip", "random"}}, [][]string{{"sub", "relay", "sub", "pub"}, {"pub", "sub", "relay", "sub"}, {"sub", "sub", "sub", "sub"}, {"relay", "sub", "pub", "sub"}}, []string{""})
	}
	// gossip-only links: a hub of degree Dhi cuts its mesh back to D, so one neighbour is reached by IHAVE/IWANT
	// only (and does not re-graft: its own mesh is at Dlo through the node behind it).  Every neighbour of the hub
	// is a relay (or a subscriber, as the control) with one subscriber behind it.
	g7 := [][2]int{{0, 1}, {0, 2}, {0, 3}, {1, 4}, {2, 5}, {3, 6}}
	all := func(r string) []string { return []string{r, r, r, r, r, r, r} }
	for _, ro := range [][]string{
		{"sub", "relay", "relay", "relay", "sub", "sub", "sub"},
		{"pub", "relay", "relay", "relay", "sub", "sub", "sub"},
		{"sub", "sub", "relay", "sub", "sub", "sub", "sub2"},
		{"relay", "relay", "relay", "relay", "sub", "sub", "sub"},
		all("sub"),
	} {
		for _, rv := range [][]string{all("gossip"), {"gossip", "gossip", "gossip", "gossip", "flood", "gossip", "random"}} {
			for _, pub := range []int{0, 4, 6} {
				if ro[pub] == "relay" {
					continue
				}
				out = append(out, &vfNetCfg{N: 7, Edges: g7, Routers: rv, Roles: ro, Pub: pub})
			}
		}
	}
	return out
}

// vfChurnPairs lists the two-step role churns over n nodes (both steps on one node if sameNode).
func vfChurnPairs(n int, sameNode bool) []string {
	kinds := []string{"sub", "cancel", "relay", "unrelay"}
	var ops []string
	for i := 0; i < n; i++ {
		for _, k := range kinds {
			ops = append(ops, fmt.Sprintf("%s:%d", k, i))
		}
	}
	var out []string
	for _, a := range ops {
		for _, b := range ops {
			if sameNode && a[strings.Index(a, ":"):] != b[strings.Index(b, ":"):] {
				continue
			}
			if a == b && !strings.HasPrefix(a, "sub:") {
				continue
			}
			out = append(out, a+";"+b)
		}
	}
	return out
}

type vfC01Case struct {
	Cfg *vfNetCfg `json:"cfg"`
}

func vfC01One(r *vfRun, cfg *vfNetCfg, judge bool) (steps, maxPending int, valid bool, obs string) {
	var fp, desc string
	p := vfBubble(r.t, func() {
		obs, fp, desc, steps, maxPending, valid = vfNetRun(cfg, func(k string) {
			if judge {
				r.count(k, 1)
			}
		})
	})
	if p != "" {
		r.violation("panic:"+vfPanicFingerprint(p), "panic: "+vfFirstLine(p), vfC01Case{Cfg: cfg})
		return 0, 0, true, "panic"
	}
	if fp != "" && judge {
		r.violation(fp, fmt.Sprintf("edges=%v routers=%v roles=%v churn=%q pub=%d dev=%v: %s", cfg.Edges, cfg.Routers, cfg.Roles, cfg.Churn, cfg.Pub, cfg.Dev, desc), vfC01Case{Cfg: cfg})
	}
	return
}

func init() {
	vfRegister("C01", &vfCheck{
		run: func(r *vfRun) {
			cfgs := vfC01Configs(r.thorough)
			r.res.Bounds["configurations_enumerated"] = len(cfgs)
			devBound := 1
			r.res.Bounds["delivery_deviation_bound"] = devBound
			selfTest := 0
			for _, cfg := range cfgs {
				if _, ok := r.nextCase(); !ok {
					continue
				}
				if r.outOfTime() {
					return
				}
				r.mark(vfC01Case{Cfg: cfg})
				steps, maxP, valid, obs := vfC01One(r, cfg, true)
				r.res.Executions++
				if !valid {
					r.count("configurations_outside_the_precondition", 1)
					continue
				}
				r.res.States++
				r.count("configurations_judged", 1)
				r.outcome(fmt.Sprintf("%v|%v|%v|%s|%d => %s", cfg.Edges, cfg.Routers, cfg.Roles, cfg.Churn, cfg.Pub, obs))
				if selfTest < 3 {
					selfTest++
					_, _, _, obs2 := vfC01One(r, cfg, false)
					if obs2 != obs {
						r.harnessError("nondeterministic network run for %+v: %q vs %q", cfg, obs, obs2)
						return
					}
				}
				if len(r.res.Samples) < 3 && cfg.N >= 3 {
					r.sample(vfC01Case{Cfg: cfg})
				}
				// measured phase under every single deviation of the delivery order (N<=3, and N=4 in thorough)
				if maxP > 1 && (cfg.N <= 3 || r.thorough) && (cfg.Churn == "" || r.thorough) {
					for st := 0; st < steps; st++ {
						for ch := 1; ch < maxP; ch++ {
							if r.outOfTime() {
								return
							}
							c2 := *cfg
							c2.Dev = []int{st, ch}
							r.mark(vfC01Case{Cfg: &c2})
							_, _, _, o2 := vfC01One(r, &c2, true)
							r.res.Executions++
							r.res.Transitions++
							r.count("delivery_order_deviations_run", 1)
							r.outcome(fmt.Sprintf("%v|%v|%v|%s|%d|%v => %s", cfg.Edges, cfg.Routers, cfg.Roles, cfg.Churn, cfg.Pub, c2.Dev, o2))
						}
					}
				}
				r.unmark()
			}
			r.res.Transitions += r.res.Executions
		},
		replay: func(r *vfRun, raw json.RawMessage) {
			var c vfC01Case
			if err := json.Unmarshal(raw, &c); err != nil || c.Cfg == nil {
				r.harnessError("bad case: %v", err)
				return
			}
			_, _, valid, obs := vfC01One(r, c.Cfg, true)
			r.res.Executions++
			fmt.Println("valid:", valid, "obs:", obs)
		},
	})
}
