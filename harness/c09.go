package pubsub

// C09: score thresholds gate what a peer may send and receive.

import (
	"encoding/json"
	"fmt"
	"sort"
	"strings"
)

func vfSnapRouterPart(s *vfSnap) string {
	return fmt.Sprintf("mesh=%v fanout=%v backoff=%v unwanted=%v peerhave=%v iasked=%v pdw=%v penalty=%v promises=%v control=%v gossip=%v",
		s.Mesh, s.Fanout, s.Backoff, s.Unwanted, s.PeerHave, s.IAsked, s.PeerDW, s.Penalty, s.Promises, s.Control, s.Gossip)
}

type vfC09Mon struct {
	connects int // host.Connect attempts seen so far
	seen     map[string]bool
}

func vfC09Oracle(in *vfGWInst, evFull string, pre, post *vfSnap) {
	g := in.g
	if !pre.OK || !post.OK || g.n.gs == nil {
		return
	}
	mon := in.mon.(*vfC09Mon)
	gs := g.n.gs
	ev, _ := vfSplitChoice(evFull)
	f := strings.Split(ev, ":")
	// new host.Connect attempts of this step
	g.n.h.hmu.Lock()
	attempts := append([]string{}, vfNames(g.n.h.connects[mon.connects:])...)
	mon.connects = len(g.n.h.connects)
	g.n.h.hmu.Unlock()
	fromPeer := ""
	switch f[0] {
	case "pub", "graft", "prune", "prunepx", "ihave", "iwant", "idw", "pubgraft":
		fromPeer = f[1]
	}
	// (an RPC can carry payload and control at once: pubgraft is judged as the publication and as the GRAFT it carries)
	pubLabel, graftTopic := "", ""
	switch f[0] {
	case "pub":
		pubLabel = f[2]
	case "graft":
		graftTopic = f[2]
	case "pubgraft":
		pubLabel, graftTopic = f[2], f[3]
	}
	if f[0] != "prunepx" && len(attempts) > 0 && f[0] != "adv" && f[0] != "hb" {
		in.bad("c09:unexpected-connect", "host.Connect(%v) was attempted", attempts)
	}
	if fromPeer != "" && g.conn[fromPeer] {
		x := fromPeer
		sc := pre.Score[x]
		// ---- graylist
		if !pre.Direct[x] && sc < gs.graylistThreshold {
			in.count("rpc_from_graylisted_peer")
			if w := g.wireLog(); w != "" {
				in.bad("c09:graylist-not-ignored", "RPC %s from %s (score %v < graylist %v) caused traffic/deliveries: %s", ev, x, sc, gs.graylistThreshold, w)
			}
			if a, b := vfSnapRouterPart(pre), vfSnapRouterPart(post); a != b {
				in.bad("c09:graylist-state-change", "RPC %s from %s (score %v < graylist %v) changed router state:\n%s", ev, x, sc, gs.graylistThreshold, vfDiff(a, b))
			}
			if len(attempts) > 0 {
				in.bad("c09:graylist-px", "PX from graylisted %s was followed: %v", x, attempts)
			}
			return
		}
		if pre.Direct[x] {
			// RPCs from direct peers are always accepted: whatever their score and whatever the gater thinks
			if sc < gs.graylistThreshold {
				in.count("rpc_from_lowscore_direct_peer")
			}
			in.count("rpc_from_direct_peer")
			if f[0] == "pub" {
				label := f[2]
				spec := g.msgs[label]
				if !mon.seen[label] && pre.MySubs[spec.Topic] > 0 {
					delivered := false
					for _, d := range g.deliv {
						if d.id == label {
							delivered = true
						}
					}
					if !delivered {
						in.bad("c09:direct-not-accepted", "message %s from direct peer %s (score %v) was not delivered", label, x, sc)
					}
				}
			}
		}
		// ---- the validation-overload gater suppresses payload only: when its coin throttled this RPC,
		// payload is dropped and every control element has its usual effect
		throttled := false
		for _, cp := range g.lastPts {
			if cp.Kind == "coin" {
				in.count("gater_coin_consulted")
				if cp.Got == 1 {
					throttled = true
				}
			}
		}
		if throttled {
			in.count("rpc_throttled_by_gater")
			if pubLabel != "" {
				for _, d := range g.deliv {
					if d.id == pubLabel {
						in.bad("c09:gater-delivered", "payload %s of %s was delivered although the gater throttled the RPC", pubLabel, x)
					}
				}
				for _, name := range g.order {
					for _, r := range g.sentTo(name) {
						if len(r.GetPublish()) > 0 {
							in.bad("c09:gater-forwarded", "payload %s of %s was forwarded to %s although the gater throttled the RPC", pubLabel, x, name)
						}
					}
				}
			}
			if graftTopic != "" {
				t := graftTopic
				_, joined := pre.Mesh[t]
				_, backedOff := pre.Backoff[t][x]
				if joined && !pre.Mesh[t][x] && !backedOff && sc >= 0 && !pre.Direct[x] && len(pre.Mesh[t]) < gs.params.Dhi && pre.Topics[t][x] {
					in.count("gater_throttled_graft_judged")
					if !post.Mesh[t][x] {
						in.bad("c09:gater-suppressed-control", "GRAFT from %s was not processed because the gater throttled the RPC (%s)", x, f[0])
					}
				}
			}
			switch f[0] {
			case "prune":
				if pre.Mesh[f[2]][x] && post.Mesh[f[2]][x] {
					in.bad("c09:gater-suppressed-control", "PRUNE from %s was not processed because the gater throttled the RPC", x)
				}
			case "ihave":
				if !mon.seen[f[3]] && pre.PeerHave[x] == 0 && pre.IAsked[x] == 0 && sc >= gs.gossipThreshold {
					in.count("gater_throttled_ihave_judged")
					n := 0
					for _, r := range g.sentTo(x) {
						n += len(r.GetControl().GetIwant())
					}
					if n == 0 && pre.Queues[x] && !g.gated[x] {
						in.bad("c09:gater-suppressed-control", "IHAVE from %s was not answered because the gater throttled the RPC", x)
					}
				}
			case "idw":
				fresh := false // the entry is (re)written with the full TTL
				for _, ttl := range post.Unwanted[x] {
					if ttl == gs.params.IDontWantMessageTTL {
						fresh = true
					}
				}
				if !fresh && pre.PeerDW[x] == 0 {
					in.bad("c09:gater-suppressed-control", "IDONTWANT from %s was not recorded because the gater throttled the RPC", x)
				}
			}
		}
		if pubLabel != "" && !throttled {
			mon.seen[pubLabel] = true
		}
		switch f[0] {
		case "ihave":
			n := 0
			for _, r := range g.sentTo(x) {
				n += len(r.GetControl().GetIwant())
			}
			if sc < gs.gossipThreshold && n > 0 {
				in.bad("c09:ihave-below-gossip", "IHAVE from %s (score %v < gossip threshold %v) was answered with IWANT", x, sc, gs.gossipThreshold)
			}
			if sc >= gs.gossipThreshold {
				in.count("ihave_at_or_above_gossip_threshold")
			}
		case "iwant":
			n := 0
			for _, r := range g.sentTo(x) {
				n += len(r.GetPublish())
			}
			if sc < gs.gossipThreshold && n > 0 {
				in.bad("c09:iwant-below-gossip", "IWANT from %s (score %v < gossip threshold %v) was answered", x, sc, gs.gossipThreshold)
			}
		case "graft":
			t := f[2]
			if _, joined := pre.Mesh[t]; joined && sc < 0 && !pre.Mesh[t][x] && !pre.Direct[x] {
				in.count("graft_from_negative_peer")
				if post.Mesh[t][x] {
					in.bad("c09:negative-grafted", "GRAFT from %s with score %v was accepted", x, sc)
				}
				found := false
				for _, r := range g.sentTo(x) {
					if p := vfGetPrune(r, t); p != nil {
						found = true
						if len(p.GetPeers()) > 0 {
							in.bad("c09:px-to-negative", "PRUNE refusing the GRAFT of %s (score %v) carries peer exchange", x, sc)
						}
					}
				}
				if !found && pre.Queues[x] && !g.gated[x] {
					in.bad("c09:negative-no-prune", "GRAFT from %s with score %v was not answered with a PRUNE", x, sc)
				}
			}
		case "prunepx":
			in.count("px_offers")
			okScore := sc >= gs.acceptPXThreshold
			_, joined := pre.Mesh[f[2]]
			want := []string{}
			if okScore && joined {
				want = []string{"v", "y"}
			}
			must := []string{}
			if okScore && joined {
				must = []string{"y"} // entries without a record are not judged
			}
			for _, a := range attempts {
				ok := false
				for _, w := range want {
					if w == a {
						ok = true
					}
				}
				if !ok {
					why := "its record is invalid for the advertised peer ID"
					if !okScore {
						why = fmt.Sprintf("the pruning peer's score %v is below the accept-PX threshold %v", sc, gs.acceptPXThreshold)
					}
					in.bad("c09:px-followed", "peer exchange from %s: connection to %s was attempted although %s", x, a, why)
				}
			}
			for _, mp := range must {
				ok := false
				for _, a := range attempts {
					if a == mp {
						ok = true
					}
				}
				if !ok {
					in.bad("c09:px-not-followed", "peer exchange from %s (score %v >= %v): the valid record of %s was not followed (attempts %v)", x, sc, gs.acceptPXThreshold, mp, attempts)
				}
			}
			if okScore && joined {
				in.count("px_accepted")
			}
		}
	}
	// (what a PRUNE offers in peer exchange outside a GRAFT refusal is not constrained by the statement)
	for _, name := range g.order {
		for _, r := range g.sentTo(name) {
			for _, p := range r.GetControl().GetPrune() {
				if len(p.GetPeers()) > 0 {
					in.count("prunes_with_px_sent")
				}
			}
		}
	}
	// ---- heartbeat: gossip / publish thresholds
	if f[0] == "hb" && post.Ticks == pre.Ticks+1 {
		for _, name := range g.order {
			if post.Score[name] < gs.gossipThreshold {
				for _, r := range g.sentTo(name) {
					if len(r.GetControl().GetIhave()) > 0 {
						in.bad("c09:ihave-to-low-score", "IHAVE was sent to %s whose score %v is below the gossip threshold %v", name, post.Score[name], gs.gossipThreshold)
					}
				}
			}
		}
		for t, fan := range pre.Fanout {
			for p := range fan {
				if post.Score[p] < gs.publishThreshold && post.Fanout[t][p] {
					in.bad("c09:fanout-low-score", "%s (score %v < publish threshold %v) is still in the fanout of %s after a heartbeat", p, post.Score[p], gs.publishThreshold, t)
				}
				if post.Score[p] < gs.publishThreshold {
					in.count("fanout_member_below_threshold_at_hb")
				}
			}
		}
		for t, mesh := range post.Mesh {
			for p := range mesh {
				if post.Score[p] < 0 {
					in.bad("c09:negative-in-mesh-after-hb", "%s (score %v) is in mesh[%s] after a heartbeat", p, post.Score[p], t)
				}
			}
		}
		for t, mesh := range pre.Mesh {
			for p := range mesh {
				if post.Score[p] < 0 && !post.Mesh[t][p] {
					in.count("negative_pruned_at_hb")
				}
			}
		}
	}
	// ---- with a negative score a peer is never grafted, by whatever path (GRAFT, heartbeat, Join, fanout promotion)
	for t, mesh := range post.Mesh {
		for p := range mesh {
			if !pre.Mesh[t][p] && pre.Score[p] < 0 && post.Score[p] < 0 {
				in.bad("c09:negative-grafted", "%s (score %v) was added to mesh[%s]", p, post.Score[p], t)
			}
		}
	}
	// ---- fanout selection never takes a peer below the publish threshold
	for t, fan := range post.Fanout {
		for p := range fan {
			if !pre.Fanout[t][p] && post.Score[p] < gs.publishThreshold && pre.Score[p] < gs.publishThreshold {
				in.bad("c09:fanout-selected-low-score", "%s (score %v < publish threshold %v) was selected into the fanout of %s", p, post.Score[p], gs.publishThreshold, t)
			}
		}
	}
	sort.Strings(attempts)
}

func vfC09Canon(in *vfGWInst) string {
	m := in.mon.(*vfC09Mon)
	return fmt.Sprintf("connects=%d seen=%v", m.connects, vfKeys(m.seen))
}

func vfC09Scenarios(thorough bool) []*vfGWScenario {
	var out []*vfGWScenario
	d := 4
	if thorough {
		d = 6
	}
	peers := []vfPeerCfg{{Name: "a", Proto: "v11", IP: "10.0.0.1"}, {Name: "b", Proto: "v11", IP: "10.0.0.2", Direct: true}, {Name: "c", Proto: "v12", IP: "10.0.0.3"}, {Name: "d", Proto: "v11", IP: "10.0.0.4"}}
	msgs := map[string]vfMsgSpec{"m1": {Topic: "t", Author: "x", Seq: 1, Size: 32}, "m2": {Topic: "t", Author: "x", Seq: 2, Size: 32}, "m3": {Topic: "t", Author: "x", Seq: 3, Size: 32}}
	prefix := []string{"conn:a", "conn:b", "conn:c", "conn:d", "sub:a:t", "sub:b:t", "sub:c:t", "sub:d:t"}
	mk := func(name string, px bool, params string, prefix, alphabet []string) {
		out = append(out, &vfGWScenario{Name: name, Cfg: vfGWCfg{Router: "gossip", Peers: peers, Topics: []string{"t"}, Params: params, Scoring: true, PX: px, Prefix: prefix, SeenTTL: 3600},
			Alphabet: alphabet, Msgs: msgs, Depth: d})
	}
	joined := append(append([]string{}, prefix...), "join:t")
	mk("graylist", true, "d2", joined, []string{"score:a:-4.5", "score:a:-4", "score:a:-3", "score:b:-5", "pub:a:m1", "pub:b:m2", "pub:c:m1", "graft:a:t", "prune:a:t", "ihave:a:t:m3", "iwant:a:m1", "idw:a:m3", "hb"})
	mk("gossip-thr", true, "d2", joined, []string{"score:a:-1.5", "score:a:-1", "score:d:-1.5", "score:d:-0.5", "pub:c:m1", "ihave:a:t:m3", "ihave:d:t:m3", "iwant:a:m1", "iwant:d:m1", "prune:a:t", "prune:d:t", "hb"})
	mk("negative", true, "d2", joined, []string{"score:a:-0.5", "score:a:0", "score:d:-0.5", "score:c:-0.5", "graft:a:t", "graft:d:t", "prune:c:t", "leave:t", "join:t", "hb", "adv:4100"})
	mk("px", true, "d2", joined, []string{"score:a:1.9", "score:a:2", "score:a:2.5", "score:c:3", "prunepx:a:t", "prunepx:c:t", "prunepx:a:u", "leave:t", "join:t", "hb"})
	mk("fanout-thr", false, "d2", prefix, []string{"score:a:-2.5", "score:a:-2", "score:a:-0.5", "score:c:-2.5", "score:d:-3", "score:d:0", "lpub:t:p1", "lpub:t:p2", "lpub:t:p3", "hb", "adv:3500", "join:t", "leave:t"})
	mk("px-over", true, "d2", append(append([]string{}, joined...), "graft:a:t", "graft:c:t", "graft:d:t"), []string{"hb", "score:a:-0.5", "score:c:1", "score:d:-0.5", "leave:t", "join:t", "graft:a:t"})
	// a full mesh (Dhi members) and a negatively scored non-member that GRAFTs: whichever rule refuses it, the PRUNE
	// must not carry peer exchange
	{
		p5 := append(append([]vfPeerCfg{}, peers...), vfPeerCfg{Name: "e", Proto: "v11", IP: "10.0.0.5"}, vfPeerCfg{Name: "f", Proto: "v12", IP: "10.0.0.6", Outbound: true})
		pre := []string{"conn:a", "conn:b", "conn:c", "conn:d", "conn:e", "conn:f", "sub:a:t", "sub:b:t", "sub:c:t", "sub:d:t", "sub:e:t", "sub:f:t", "join:t", "graft:a:t", "graft:c:t", "graft:d:t"}
		out = append(out, &vfGWScenario{Name: "px-full-mesh", Cfg: vfGWCfg{Router: "gossip", Peers: p5, Topics: []string{"t"}, Params: "d2", Scoring: true, PX: true, Prefix: pre, SeenTTL: 3600},
			Alphabet: []string{"score:e:-0.5", "score:f:-0.5", "score:e:1", "graft:e:t", "graft:f:t", "prune:a:t", "hb"}, Msgs: msgs, Depth: d})
	}
	// the heartbeat's outbound quota: a mesh that is large enough (>= Dlo) but holds fewer than Dout peers the node
	// dialled itself is topped up from the outbound non-members -- of which only those at or above zero qualify
	{
		po := []vfPeerCfg{{Name: "a", Proto: "v11", IP: "10.0.0.1"}, {Name: "c", Proto: "v12", IP: "10.0.0.3"},
			{Name: "d", Proto: "v11", IP: "10.0.0.4", Outbound: true}, {Name: "e", Proto: "v12", IP: "10.0.0.5", Outbound: true}}
		pre := []string{"conn:a", "conn:c", "sub:a:t", "sub:c:t", "join:t", "conn:d", "conn:e", "sub:d:t", "sub:e:t"}
		out = append(out, &vfGWScenario{Name: "outbound-quota", Cfg: vfGWCfg{Router: "gossip", Peers: po, Topics: []string{"t"}, Params: "d4", Scoring: true, Prefix: pre, SeenTTL: 3600},
			Alphabet: []string{"score:d:-0.5", "score:d:0", "score:e:-0.5", "unsub:e:t", "sub:e:t", "prune:a:t", "graft:d:t", "hb", "adv:4100"}, Msgs: msgs, Depth: d})
	}
	// validation-overload gater: m1 parks in the only validation slot, m2 is throttled (the gater's circuit
	// breaker closes), m1 is then rejected (a's goodput drops): from here the gater consults its coin for a's RPCs
	// (b is a direct peer with equally bad statistics: the gater must never get to judge it)
	gmsgs := map[string]vfMsgSpec{"m1": {Topic: "t", Author: "x", Seq: 1, Size: 32}, "m2": {Topic: "t", Author: "x", Seq: 2, Size: 32},
		"m3": {Topic: "t", Author: "x", Seq: 3, Size: 32}, "m4": {Topic: "t", Author: "x", Seq: 4, Size: 32},
		"m5": {Topic: "t", Author: "x", Seq: 5, Size: 32}, "m6": {Topic: "t", Author: "x", Seq: 6, Size: 32}}
	out = append(out, &vfGWScenario{Name: "gater", Cfg: vfGWCfg{Router: "gossip", Peers: peers[:2:2], Topics: []string{"t"}, Params: "d2", Scoring: true, Gater: true, ValThrottle: 1, SeenTTL: 3600,
		Validators: []vfValCfg{{Name: "V", Topic: "t", Gated: true, GateOnly: []string{"m1", "m5"}}},
		Prefix:     []string{"conn:a", "conn:b", "join:t", "sub:a:t", "sub:b:t", "pub:a:m1", "pub:a:m2", "vrel:V:m1:R", "pub:b:m5", "vrel:V:m5:R"}},
		Alphabet: []string{"pub:a:m3", "pub:b:m6", "graft:a:t", "pubgraft:a:m4:t", "prune:a:t", "ihave:a:t:m4", "idw:a:m4", "score:b:-5", "score:a:-4.5", "hb"}, Msgs: gmsgs, Depth: d,
		DevKinds: []string{"coin"}, DevEvents: []string{"pub", "graft", "pubgraft", "prune", "ihave", "idw"}, DevMax: 4})
	return out
}

func vfC09Mk(x *vfExec, sc *vfGWScenario) vfInstance {
	in := newVfGWInst(x, sc, nil)
	in.mon = &vfC09Mon{seen: map[string]bool{}}
	in.g.n.h.hmu.Lock()
	in.mon.(*vfC09Mon).connects = len(in.g.n.h.connects)
	in.g.n.h.hmu.Unlock()
	in.monCanon = vfC09Canon
	in.oracle = vfC09Oracle
	return in
}

func init() {
	vfRegister("C09", &vfCheck{
		run:    func(r *vfRun) { vfRunGWScenarios(r, vfC09Scenarios(r.thorough), vfC09Mk) },
		replay: func(r *vfRun, raw json.RawMessage) { vfReplayGWScenario(r, raw, vfC09Mk) },
	})
}
