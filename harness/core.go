package pubsub

// Verification harness core: worker side of the `vf` driver protocol.
//
// The driver (../vf) builds this package's test binary from /repo's current
// tree with these files overlaid as zz_vf_*_test.go and runs
//
//	VF_CHECK=<id> VF_TIER=quick|thorough VF_SHARD=i/n VF_OUT=<json> <bin> -test.run ^TestVF$
//
// A check enumerates its space exhaustively (sharded by a deterministic case
// index), reports counters, samples and violations through vfRun, and the
// result is written to VF_OUT.  VF_REPLAY=<file> runs exactly one recorded case.

import (
	"crypto/sha256"
	"encoding/hex"
	"encoding/json"
	"fmt"
	"os"
	"runtime"
	"runtime/debug"
	"sort"
	"strconv"
	"strings"
	"testing"
	"testing/synctest"
	"time"
)

type vfViolation struct {
	Fingerprint string          `json:"fingerprint"`
	Desc        string          `json:"desc"`
	Case        json.RawMessage `json:"case"`
}

type vfResult struct {
	Check         string            `json:"check"`
	Tier          string            `json:"tier"`
	Shard         string            `json:"shard"`
	Executions    int64             `json:"executions"`
	States        int64             `json:"states"`
	Transitions   int64             `json:"transitions"`
	Outcomes      []string          `json:"outcomes"` // hashes of distinct observation logs (capped)
	OutcomesTotal int64             `json:"outcomes_total"`
	Nontrivial    []string          `json:"nontrivial"` // hashes of distinct non-trivial cases (capped)
	NontrivialN   int64             `json:"nontrivial_n"`
	Counters      map[string]int64  `json:"counters"`
	Samples       []json.RawMessage `json:"samples"`
	Violations    []vfViolation     `json:"violations"`
	Exhaustive    bool              `json:"exhaustive"`
	Bounds        map[string]any    `json:"bounds"`
	Notes         []string          `json:"notes"`
	HarnessError  string            `json:"harness_error,omitempty"`
	WallS         float64           `json:"wall_s"`
}

type vfRun struct {
	t        *testing.T
	check    string
	tier     string
	thorough bool
	shardI   int
	shardN   int
	seed     int64
	deadline time.Time
	res      *vfResult
	outcomes map[string]struct{}
	nontriv  map[string]struct{}
	vfps     map[string]int
	caseIdx  int64
	resume   int64 // skip flat cases with index <= resume (after a worker crash)
	markF    *os.File
	replay   bool
	capped   bool
}

const vfMaxViolationsPerFingerprint = 3
const vfHashCap = 200000

func (r *vfRun) count(name string, n int64) {
	r.res.Counters[name] += n
}

// mine reports whether flat case number idx belongs to this shard (and is not
// skipped by a resume-after-crash request).
func (r *vfRun) mine(idx int64) bool {
	if r.replay {
		return true
	}
	if idx <= r.resume {
		return false
	}
	return int(idx%int64(r.shardN)) == r.shardI
}

// nextCase advances the flat case counter and reports whether the case is ours.
func (r *vfRun) nextCase() (int64, bool) {
	r.caseIdx++
	return r.caseIdx, r.mine(r.caseIdx)
}

// outOfTime reports whether the internal deadline has passed; the run is then
// marked non-exhaustive and the check should wind down.
func (r *vfRun) outOfTime() bool {
	if r.deadline.IsZero() {
		return false
	}
	if time.Now().After(r.deadline) {
		if !r.capped {
			r.capped = true
			r.res.Exhaustive = false
			r.res.Notes = append(r.res.Notes, "internal deadline reached; run is not exhaustive")
		}
		return true
	}
	return false
}

func vfHash(s string) string {
	h := sha256.Sum256([]byte(s))
	return hex.EncodeToString(h[:8])
}

// outcome records the canonical observation log of one execution.
func (r *vfRun) outcome(obs string) {
	h := vfHash(obs)
	if _, ok := r.outcomes[h]; ok {
		return
	}
	if len(r.outcomes) < vfHashCap {
		r.outcomes[h] = struct{}{}
	}
	r.res.OutcomesTotal++
}

// nontrivial records a case that reached the code under test past its first guard.
func (r *vfRun) nontrivial(key string) {
	h := vfHash(key)
	if _, ok := r.nontriv[h]; ok {
		return
	}
	if len(r.nontriv) < vfHashCap {
		r.nontriv[h] = struct{}{}
	}
	r.res.NontrivialN++
}

func (r *vfRun) sample(v any) {
	if len(r.res.Samples) >= 6 {
		return
	}
	b, err := json.Marshal(v)
	if err == nil {
		r.res.Samples = append(r.res.Samples, b)
	}
}

func (r *vfRun) note(format string, a ...any) {
	if len(r.res.Notes) < 50 {
		r.res.Notes = append(r.res.Notes, fmt.Sprintf(format, a...))
	}
}

func (r *vfRun) violation(fp, desc string, c any) {
	fp = strings.Join(strings.Fields(fp), "_") // fingerprints are single tokens
	r.vfps[fp]++
	if r.vfps[fp] > vfMaxViolationsPerFingerprint {
		return
	}
	b, _ := json.Marshal(c)
	r.res.Violations = append(r.res.Violations, vfViolation{Fingerprint: fp, Desc: desc, Case: b})
	if r.replay {
		fmt.Printf("REPLAY-VIOLATION fingerprint=%s %s\n", fp, desc)
	}
}

func (r *vfRun) totalViolations() int {
	n := 0
	for _, c := range r.vfps {
		n += c
	}
	return n
}

func (r *vfRun) harnessError(format string, a ...any) {
	if r.res.HarnessError == "" {
		r.res.HarnessError = fmt.Sprintf(format, a...)
	}
	if r.replay {
		fmt.Printf("REPLAY-HARNESS-ERROR %s\n", r.res.HarnessError)
	}
}

// mark records the in-flight case so that the driver can attribute a process
// crash (a panic in a goroutine started by the library cannot be recovered).
func (r *vfRun) mark(c any) {
	if r.markF == nil {
		return
	}
	b, _ := json.Marshal(map[string]any{"case_index": r.caseIdx, "case": c})
	r.markF.Truncate(0)
	r.markF.WriteAt(b, 0)
}

func (r *vfRun) unmark() {
	if r.markF == nil {
		return
	}
	r.markF.Truncate(0)
}

type vfCheck struct {
	run    func(r *vfRun)
	replay func(r *vfRun, raw json.RawMessage)
}

var vfChecks = map[string]*vfCheck{}

func vfRegister(id string, c *vfCheck) { vfChecks[id] = c }

// vfBubble runs f inside a synctest bubble and converts a panic of the bubble
// (including the "blocked goroutines remain" deadlock report) into a string.
func vfBubble(t *testing.T, f func()) (panicked string) {
	defer func() {
		if e := recover(); e != nil {
			panicked = fmt.Sprint(e)
		}
	}()
	synctest.Test(t, func(t *testing.T) {
		f()
	})
	return ""
}

// vfBubbleGoroutines returns the goroutine dump entries that belong to a
// synctest bubble (all of them: there is one bubble per worker at a time).
func vfBubbleGoroutines() []string {
	buf := make([]byte, 1<<20)
	for {
		n := runtime.Stack(buf, true)
		if n < len(buf) {
			buf = buf[:n]
			break
		}
		buf = make([]byte, 2*len(buf))
	}
	var out []string
	for _, g := range strings.Split(string(buf), "\n\n") {
		nl := strings.IndexByte(g, '\n')
		hdr := g
		if nl >= 0 {
			hdr = g[:nl]
		}
		if strings.Contains(hdr, "synctest bubble") {
			out = append(out, g)
		}
	}
	return out
}

func vfSortedKeys[M ~map[string]V, V any](m M) []string {
	ks := make([]string, 0, len(m))
	for k := range m {
		ks = append(ks, k)
	}
	sort.Strings(ks)
	return ks
}

func TestVF(t *testing.T) {
	id := os.Getenv("VF_CHECK")
	if id == "" {
		t.Skip("VF_CHECK not set")
	}
	debug.SetGCPercent(400)
	c := vfChecks[id]
	r := &vfRun{t: t, check: id, tier: os.Getenv("VF_TIER"), shardN: 1,
		outcomes: map[string]struct{}{}, nontriv: map[string]struct{}{}, vfps: map[string]int{}}
	if r.tier == "" {
		r.tier = "quick"
	}
	r.thorough = r.tier == "thorough"
	if s := os.Getenv("VF_SHARD"); s != "" {
		fmt.Sscanf(s, "%d/%d", &r.shardI, &r.shardN)
	}
	r.seed, _ = strconv.ParseInt(os.Getenv("VERIF_SEED"), 10, 64)
	if s := os.Getenv("VF_DEADLINE_S"); s != "" {
		d, _ := strconv.ParseFloat(s, 64)
		if d > 0 {
			r.deadline = time.Now().Add(time.Duration(d * float64(time.Second)))
		}
	}
	if s := os.Getenv("VF_RESUME_AFTER"); s != "" {
		r.resume, _ = strconv.ParseInt(s, 10, 64)
	}
	if s := os.Getenv("VF_MARK"); s != "" {
		f, err := os.OpenFile(s, os.O_CREATE|os.O_RDWR|os.O_TRUNC, 0o644)
		if err == nil {
			r.markF = f
			defer f.Close()
		}
	}
	r.res = &vfResult{Check: id, Tier: r.tier, Shard: fmt.Sprintf("%d/%d", r.shardI, r.shardN),
		Counters: map[string]int64{}, Bounds: map[string]any{}, Exhaustive: true}
	start := time.Now()
	if c == nil {
		r.harnessError("unknown check %q", id)
	} else if rp := os.Getenv("VF_REPLAY"); rp != "" {
		r.replay = true
		raw, err := os.ReadFile(rp)
		if err != nil {
			r.harnessError("cannot read replay file: %v", err)
		} else {
			var doc struct {
				Case json.RawMessage `json:"case"`
			}
			if err := json.Unmarshal(raw, &doc); err != nil || doc.Case == nil {
				r.harnessError("bad replay file: %v", err)
			} else if c.replay == nil {
				r.harnessError("check %s has no replay function", id)
			} else {
				c.replay(r, doc.Case)
				if len(r.res.Violations) == 0 && r.res.HarnessError == "" {
					fmt.Println("REPLAY-OK no violation")
				}
			}
		}
	} else {
		c.run(r)
	}
	r.res.WallS = time.Since(start).Seconds()
	for h := range r.outcomes {
		r.res.Outcomes = append(r.res.Outcomes, h)
	}
	for h := range r.nontriv {
		r.res.Nontrivial = append(r.res.Nontrivial, h)
	}
	sort.Strings(r.res.Outcomes)
	sort.Strings(r.res.Nontrivial)
	if out := os.Getenv("VF_OUT"); out != "" {
		b, _ := json.Marshal(r.res)
		if err := os.WriteFile(out+".tmp", b, 0o644); err == nil {
			os.Rename(out+".tmp", out)
		}
	}
	if r.res.HarnessError != "" {
		t.Fatalf("harness error: %s", r.res.HarnessError)
	}
}
