package pubsub

// C06: every forwarded copy goes to exactly the peers the router rules require,
// and is field-for-field the accepted message.

import (
	"bytes"
	"encoding/json"
	"fmt"
	"math"
	"sort"
	"strings"
	"time"

	pb "github.com/libp2p/go-libp2p-pubsub/pb"
)

type vfC06Mon struct {
	seen    map[string]bool          // message labels the node has already accepted or seen
	lastPub map[string]time.Duration // topic -> time of the last publication to it while it was not joined
}

func vfC06Canon(in *vfGWInst) string {
	m := in.mon.(*vfC06Mon)
	var l []string
	for t, at := range m.lastPub {
		l = append(l, fmt.Sprintf("%s:-%d", t, (in.last.Now-at)/time.Millisecond))
	}
	sort.Strings(l)
	return strings.Join(vfKeys(m.seen), ",") + "|lastpub=" + strings.Join(l, ",")
}

// recipients of message label m during this step, with the bytes each one got
func vfMsgRecipients(g *vfGW, label string) map[string][]*pb.Message {
	out := map[string][]*pb.Message{}
	for _, name := range g.order {
		for _, r := range g.wire[name] {
			if r.rpc == nil {
				continue
			}
			for _, m := range r.rpc.GetPublish() {
				if g.msgLabel(m) == label {
					out[name] = append(out[name], m)
				}
			}
		}
	}
	return out
}

func vfC06Oracle(in *vfGWInst, evFull string, pre, post *vfSnap) {
	g := in.g
	if !pre.OK || !post.OK {
		return
	}
	mon := in.mon.(*vfC06Mon)
	ev, _ := vfSplitChoice(evFull)
	f := strings.Split(ev, ":")
	if f[0] == "lpubbatch2" {
		// one batch with two messages: judged as the two publications it consists of (same snapshots, same wire log)
		vfC06Oracle(in, "lpubbatch:"+f[1]+":"+f[2], pre, post)
		vfC06Oracle(in, "lpubbatch:"+f[3]+":"+f[4], pre, post)
		return
	}
	// fanout state is kept for as long as the topic keeps being published to (and members stay eligible)
	if g.n.gs != nil && post.Ticks > pre.Ticks {
		ttl := g.n.gs.params.FanoutTTL
		for t, fan := range pre.Fanout {
			at, published := mon.lastPub[t]
			if _, joined := post.Mesh[t]; joined || !published || post.Now-at >= ttl {
				continue
			}
			for p := range fan {
				eligible := post.Topics[t][p] && g.conn[p] && (!g.cfg.Scoring || post.Score[p] >= g.n.gs.publishThreshold)
				if eligible && !post.Fanout[t][p] {
					in.bad("c06:fanout-expired-while-publishing", "fanout member %s of %s was dropped by a heartbeat although the topic was published to %v ago (FanoutTTL %v) and the peer is still eligible", p, t, post.Now-at, ttl)
				}
			}
			in.count("fanout_kept_across_heartbeat_checks")
		}
	}
	// "members that announced they already have the message": an announcement stands until it expires (heartbeats) or
	// the peer goes; an IDONTWANT RPC adds to what its sender announced before, it never takes anything back. (The
	// recipient rule below reads the router's own record of announcements, so the record itself is judged here.)
	if f[0] == "idw" && post.Ticks == pre.Ticks {
		for id := range pre.Unwanted[f[1]] {
			if _, still := post.Unwanted[f[1]][id]; !still {
				in.bad("c06:announcement-forgotten", "%s had announced IDONTWANT for %s; its next IDONTWANT RPC (%s) made the router forget that", f[1], id, ev)
			}
		}
		in.count("idontwant_rpcs_judged")
	}
	// anything that crosses the wire in a non-publish step must not be a payload message,
	// except replies to IWANT (not in this alphabet) -- judged by C17
	if f[0] != "pub" && f[0] != "lpub" && f[0] != "lpubbatch" {
		return
	}
	var label, topic, source, author string
	local, localOnly := false, false
	if f[0] == "pub" {
		source, label = f[1], f[2]
		spec := g.msgs[label]
		topic, author = spec.Topic, spec.Author
	} else {
		topic, label = f[1], "local:"+f[2]
		source, author = "N", "N"
		local = true
		localOnly = len(f) > 3 && f[3] == "local"
		if _, joined := pre.Mesh[topic]; !joined && g.n.gs != nil && !localOnly {
			mon.lastPub[topic] = pre.Now
		}
	}
	rcpt := vfMsgRecipients(g, label)
	params := GossipSubParams{}
	pubThr, grayThr := 0.0, math.Inf(-1)
	if g.n.gs != nil {
		params = g.n.gs.params
		pubThr = g.n.gs.publishThreshold
		if g.cfg.Scoring {
			grayThr = g.n.gs.graylistThreshold
		}
	}
	score := func(p string) float64 {
		if !g.cfg.Scoring {
			return 0
		}
		return pre.Score[p]
	}
	// ---- acceptance (independent of what the router did)
	accepted := true
	if !local {
		switch {
		case !g.conn[source]:
			accepted = false
		case pre.MySubs[topic] == 0 && pre.MyRelays[topic] == 0:
			accepted = false
		case mon.seen[label]:
			accepted = false
		case author == "N":
			accepted = false
		case g.n.gs != nil && !pre.Direct[source] && score(source) < grayThr:
			accepted = false
		case pre.Blacklst[source] || (author != "" && author != "x" && pre.Blacklst[author]):
			accepted = false
		}
		if g.conn[source] && !(g.n.gs != nil && !pre.Direct[source] && score(source) < grayThr) {
			mon.seen[label] = mon.seen[label] || accepted
		}
	}
	// ---- never
	known := map[string]bool{}
	for p := range pre.Topics[topic] {
		known[p] = true
	}
	for p := range pre.Mesh[topic] {
		known[p] = true
	}
	for p := range pre.Fanout[topic] {
		known[p] = true
	}
	for p, copies := range rcpt {
		in.count("copies_on_wire")
		switch {
		case localOnly:
			in.bad("c06:local-only-sent", "local-only publication %s was sent to %s", label, p)
		case p == source:
			in.bad("c06:sent-to-source", "message %s was sent back to the peer it came from (%s)", label, p)
		case p == author:
			in.bad("c06:sent-to-author", "message %s was sent to its author %s", label, p)
		case !known[p]:
			in.bad("c06:sent-to-nonmember", "message %s was sent to %s which is not known to be in topic %s (topic peers %v mesh %v fanout %v)", label, p, topic, vfKeys(pre.Topics[topic]), vfKeys(pre.Mesh[topic]), vfKeys(pre.Fanout[topic]))
		case !accepted:
			in.bad("c06:forwarded-unaccepted", "message %s was forwarded to %s although it must not be accepted (dup/unsubscribed/graylisted/self-authored)", label, p)
		}
		if len(copies) > 1 {
			in.bad("c06:duplicate-copy", "message %s was sent %d times to %s in one step", label, len(copies), p)
		}
		// field-for-field
		var want *pb.Message
		if !local {
			want = g.pbMsg(label)
		}
		for _, c := range copies {
			if want != nil {
				wb, _ := want.Marshal()
				cb, _ := c.Marshal()
				if !bytes.Equal(wb, cb) {
					in.bad("c06:copy-differs", "copy of %s sent to %s differs from the accepted message", label, p)
				}
			} else {
				if strings.TrimRight(string(c.GetData()), "\x00") != f[2] || c.GetTopic() != topic || string(c.GetFrom()) != string(g.n.id()) {
					in.bad("c06:copy-differs", "copy of local message %s sent to %s has wrong data/topic/from", label, p)
				}
			}
		}
	}
	if !accepted || localOnly {
		return
	}
	in.count("accepted_publications")
	// ---- always (an outbound queue must exist and the stream must not be gated)
	can := func(p string) bool { return pre.Queues[p] && !g.gated[p] && p != source && p != author && g.conn[p] }
	must := map[string]string{}
	switch g.cfg.Router {
	case "flood":
		for p := range pre.Topics[topic] {
			must[p] = "floodsub floods every topic peer"
		}
	case "random":
		nrs := 0
		for p := range pre.Topics[topic] {
			if pre.Peers[p] == string(FloodSubID) {
				must[p] = "floodsub peer in topic"
			} else if p != source && p != author {
				nrs++
			}
		}
		if nrs <= RandomSubD {
			for p := range pre.Topics[topic] {
				if pre.Peers[p] != string(FloodSubID) {
					must[p] = "randomsub peer within RandomSubD"
				}
			}
		}
	case "gossip":
		if g.cfg.FloodPub && local {
			for p := range pre.Topics[topic] {
				if pre.Direct[p] || score(p) >= pubThr {
					must[p] = "flood publishing: topic peer at or above the publish threshold"
				}
			}
			break
		}
		for p := range pre.Topics[topic] {
			if pre.Direct[p] {
				must[p] = "direct peer in topic"
			} else if !vfMeshCapable(pre.Peers[p]) && score(p) >= pubThr {
				must[p] = "floodsub-only peer in topic at or above the publish threshold"
			}
		}
		cs := computeChecksum(vfC06ID(g, label, rcpt))
		idw := fmt.Sprintf("%x/%d", cs.payload[:8], cs.length)
		if mesh, joined := pre.Mesh[topic]; joined {
			for p := range mesh {
				if _, unwanted := pre.Unwanted[p][idw]; unwanted {
					in.count("idontwant_suppressed")
					if _, got := rcpt[p]; got {
						in.bad("c06:sent-unwanted", "message %s was sent to mesh member %s which announced IDONTWANT for it", label, p)
					}
					continue
				}
				must[p] = "mesh member"
			}
		} else {
			eligible := map[string]bool{}
			for p := range pre.Topics[topic] {
				if vfMeshCapable(pre.Peers[p]) && !pre.Direct[p] && score(p) >= pubThr {
					eligible[p] = true
				}
			}
			prev := pre.Fanout[topic]
			nowF := post.Fanout[topic]
			if len(prev) > 0 {
				in.count("fanout_reused")
				for p := range prev {
					if eligible[p] {
						if _, unwanted := pre.Unwanted[p][idw]; unwanted {
							continue
						}
						must[p] = "fanout member that is still eligible"
						if !nowF[p] {
							in.bad("c06:fanout-member-dropped", "fanout member %s of %s is still eligible but was dropped by a publish", p, topic)
						}
					}
				}
			} else {
				in.count("fanout_selected")
				want := params.D
				if len(eligible) < want {
					want = len(eligible)
				}
				if len(nowF) != want {
					in.bad("c06:fanout-size", "fanout for %s has %d members after the first publish, want min(D=%d, eligible=%d)", topic, len(nowF), params.D, len(eligible))
				}
				for p := range nowF {
					if !eligible[p] {
						in.bad("c06:fanout-ineligible", "%s was selected into the fanout of %s but is not eligible (direct / floodsub / below publish threshold / not in topic)", p, topic)
					}
					must[p] = "freshly selected fanout member"
				}
			}
			if len(nowF) > params.D && len(prev) <= params.D {
				in.bad("c06:fanout-size", "fanout for %s has %d members > D=%d", topic, len(nowF), params.D)
			}
		}
	}
	var missing []string
	for p, why := range must {
		if !can(p) {
			continue
		}
		if _, ok := rcpt[p]; !ok {
			missing = append(missing, p+" ("+why+")")
		}
	}
	sort.Strings(missing)
	if len(missing) > 0 {
		kind := strings.SplitN(strings.SplitN(missing[0], "(", 2)[1], " ", 2)[0]
		in.bad("c06:not-sent:"+kind, "message %s was not sent to %s; recipients were %v", label, strings.Join(missing, ", "), vfSortedKeys(rcpt))
	}
}

// the wire ID of a message label (local messages get their seqno from the node)
func vfC06ID(g *vfGW, label string, rcpt map[string][]*pb.Message) string {
	if !strings.HasPrefix(label, "local:") {
		return g.msgID(label)
	}
	for _, l := range rcpt {
		for _, m := range l {
			return DefaultMsgIdFn(m)
		}
	}
	return ""
}

func vfC06Msgs() map[string]vfMsgSpec {
	return map[string]vfMsgSpec{
		"m1": {Topic: "t", Author: "x", Seq: 1, Size: 32},
		"m2": {Topic: "t", Author: "a", Seq: 2, Size: 32},
		"m3": {Topic: "t", Author: "c", Seq: 3, Size: 32},
		"m4": {Topic: "t", Author: "N", Seq: 4, Size: 32},
	}
}

func vfC06Scenarios(thorough bool) []*vfGWScenario {
	var out []*vfGWScenario
	d := 4
	if thorough {
		d = 6
	}
	peers := []vfPeerCfg{{Name: "a", Proto: "v11", IP: "10.0.0.1"}, {Name: "b", Proto: "v12", IP: "10.0.0.2"}, {Name: "c", Proto: "fs", IP: "10.0.0.3"},
		{Name: "d", Proto: "v11", IP: "10.0.0.4", Direct: true}, {Name: "e", Proto: "v10", IP: "10.0.0.5"}}
	connSub := func(ps []vfPeerCfg, subs string) []string {
		var l []string
		for _, p := range ps {
			l = append(l, "conn:"+p.Name)
		}
		for _, p := range ps {
			if strings.Contains(subs, p.Name) {
				l = append(l, "sub:"+p.Name+":t")
			}
		}
		return l
	}
	mk := func(name, router string, ps []vfPeerCfg, fp bool, prefix, alphabet []string) {
		out = append(out, &vfGWScenario{Name: name, Cfg: vfGWCfg{Router: router, Peers: ps, Topics: []string{"t"}, Params: "d2", Scoring: router == "gossip", FloodPub: fp, Prefix: prefix, SeenTTL: 3600},
			Alphabet: alphabet, Msgs: vfC06Msgs(), Depth: d, DevKinds: []string{"peers"}, DevEvents: []string{"lpub", "pub", "join"}, DevMax: 4})
	}
	pubs := []string{"pub:a:m1", "pub:b:m2", "pub:c:m3", "pub:e:m4", "lpub:t:p1", "lpub:t:p2:local"}
	mk("gs-joined", "gossip", peers, false, append(connSub(peers, "abcde"), "join:t"),
		append([]string{"graft:a:t", "graft:e:t", "prune:b:t", "idw:a:m1", "idw:a:m3", "idw:b:m3", "score:c:-3", "score:c:-2", "score:a:-3", "unsub:b:t", "sub:b:t", "leave:t", "hb"}, pubs...))
	mk("gs-fanout", "gossip", peers, false, connSub(peers, "abce"),
		append([]string{"sub:d:t", "score:a:-3", "score:a:-2", "score:b:-3", "unsub:a:t", "sub:a:t", "hb", "adv:3500", "adv:2000", "join:t", "relay:t", "idw:a:m1", "lpub:t:p5"}, pubs...))
	// (which candidates refill the fanout at a heartbeat is the explorer's choice too: an eligible member that was
	// wrongly evicted is otherwise drawn again at once and the eviction stays invisible)
	out[len(out)-1].DevEvents = []string{"lpub", "pub", "join", "hb"}
	// batch publication (AddToBatch + PublishBatch), joined and through the fanout
	mk("gs-batch", "gossip", peers, false, connSub(peers, "abcde"),
		[]string{"join:t", "leave:t", "graft:a:t", "prune:b:t", "score:c:-3", "idw:a:m1", "hb", "lpubbatch:t:p3", "lpubbatch:t:p4:local", "lpubbatch:t:p6", "lpub:t:p1"})
	// a batch whose messages have recipient sets of different sizes (two topics; u has one interested peer)
	mk("gs-batch2", "gossip", peers, false, append(connSub(peers, "abcde"), "sub:a:u", "join:t", "join:u"),
		[]string{"lpubbatch2:t:p3:u:p4", "lpubbatch2:u:p5:t:p6", "graft:a:t", "graft:e:t", "prune:b:t", "hb", "lpubbatch:t:p7"})
	out[len(out)-1].Cfg.Topics = []string{"t", "u"}
	out[len(out)-1].DevEvents = []string{"lpubbatch2", "lpubbatch", "join"}
	mk("gs-floodpub", "gossip", peers, true, connSub(peers, "abcde"),
		append([]string{"join:t", "leave:t", "score:a:-3", "score:b:-2", "score:c:-3", "score:d:-5", "graft:b:t", "hb"}, pubs...))
	fpeers := []vfPeerCfg{{Name: "a", Proto: "fs", IP: "10.0.0.1"}, {Name: "b", Proto: "fs", IP: "10.0.0.2"}, {Name: "c", Proto: "fs", IP: "10.0.0.3"}}
	mk("flood", "flood", fpeers, false, connSub(fpeers, "ab"),
		[]string{"join:t", "leave:t", "relay:t", "sub:c:t", "unsub:a:t", "sub:a:t", "disc:b", "pub:a:m1", "pub:b:m2", "pub:c:m3", "pub:a:m3", "lpub:t:p1", "lpub:t:p2:local"})
	rpeers := []vfPeerCfg{{Name: "a", Proto: "rs", IP: "10.0.0.1"}, {Name: "b", Proto: "rs", IP: "10.0.0.2"}, {Name: "c", Proto: "fs", IP: "10.0.0.3"}}
	mk("random", "random", rpeers, false, connSub(rpeers, "ab"),
		[]string{"join:t", "leave:t", "relay:t", "sub:c:t", "unsub:a:t", "sub:a:t", "disc:b", "pub:a:m1", "pub:b:m2", "pub:c:m3", "pub:a:m3", "lpub:t:p1", "lpub:t:p2:local"})
	// signed traffic (the default policy): what is forwarded is byte for byte what was accepted, key field included --
	// author x has an RSA identity, whose messages carry the public key
	for _, router := range []string{"gossip", "flood"} {
		ps, pre := peers, append(connSub(peers, "abcde"), "join:t")
		if router == "flood" {
			ps, pre = fpeers, append(connSub(fpeers, "abc"), "join:t")
		}
		mk(router+"-signed", router, ps, false, pre, []string{"pub:a:m1", "pub:b:m2", "pub:c:m3", "pub:b:m1", "lpub:t:p1", "hb", "graft:a:t", "leave:t", "join:t"})
		out[len(out)-1].Cfg.Extra = map[string]string{"sign": "rsa"}
		out[len(out)-1].Depth = d - 1
	}
	// one recipient has stopped reading and its queue (of one) is full: the copy for it is dropped, everybody else
	// still gets theirs -- whichever of them the router happens to serve first
	mk("flood-congested", "flood", fpeers, false, append(connSub(fpeers, "abc"), "join:t", "gate:a"),
		[]string{"pub:b:m1", "pub:c:m3", "pub:b:m4", "lpub:t:p1", "lpub:t:p2", "lpub:t:p3", "ungate:a", "gate:b"})
	out[len(out)-1].Cfg.QueueSize = 1
	mk("random-congested", "random", rpeers, false, append(connSub(rpeers, "abc"), "join:t", "gate:a"),
		[]string{"pub:b:m1", "pub:c:m3", "pub:b:m4", "lpub:t:p1", "lpub:t:p2", "lpub:t:p3", "ungate:a", "gate:b"})
	out[len(out)-1].Cfg.QueueSize = 1
	return out
}

func vfC06Mk(x *vfExec, sc *vfGWScenario) vfInstance {
	in := newVfGWInst(x, sc, nil)
	in.mon = &vfC06Mon{seen: map[string]bool{}, lastPub: map[string]time.Duration{}}
	in.monCanon = vfC06Canon
	in.oracle = vfC06Oracle
	return in
}

func init() {
	vfRegister("C06", &vfCheck{
		run:    func(r *vfRun) { vfRunGWScenarios(r, vfC06Scenarios(r.thorough), vfC06Mk) },
		replay: func(r *vfRun, raw json.RawMessage) { vfReplayGWScenario(r, raw, vfC06Mk) },
	})
}
