package pubsub

// C20: the sequence-number validator never accepts a replay.
// Node part: a real node with BasicSeqnoValidator as default validator and an
// application metadata store; messages of one author with sequence numbers
// {1,2,3,MAX,0}, wrong-length encodings (0, 3 and 9 bytes), several forwarders,
// every arrival order, 1-2 workers, replays after the seen window expired.
// Thread part (sched variant): sched_c02.go.

import (
	"encoding/binary"
	"encoding/json"
	"fmt"
	"os"
	"strings"
)

type vfC20Inst struct {
	*vfGWInst
	maxAcc   map[string]uint64 // author -> highest accepted seqno
	hasAcc   map[string]bool
	invalid0 map[string]float64
	nputs    int
	commits  map[string]int  // "author/seq" -> nonce commits not yet matched by an accepted message
	accepted map[string]bool // message labels already seen delivered / forwarded
}

func vfC20Seq(spec vfMsgSpec) (uint64, int) {
	var b []byte
	switch {
	case spec.SeqHex == "-":
		return 0, 0
	case spec.SeqHex != "":
		fmt.Sscanf(spec.SeqHex, "%x", &b)
	default:
		b = make([]byte, 8)
		binary.BigEndian.PutUint64(b, spec.Seq)
	}
	if len(b) >= 8 {
		return binary.BigEndian.Uint64(b[:8]), len(b)
	}
	return 0, len(b)
}

func (in *vfC20Inst) Apply(ev string, judge bool) string {
	g := in.g
	pre := in.last
	obs := in.vfGWInst.Apply(ev, judge)
	post := in.last
	f := strings.Split(ev, ":")
	// the store only ever grows, one strictly greater value per accepted message
	g.meta.mu.Lock()
	puts := append([]string{}, g.meta.puts[in.nputs:]...)
	in.nputs = len(g.meta.puts)
	g.meta.mu.Unlock()
	for _, p := range puts {
		who, hx, _ := strings.Cut(p, "=")
		var v uint64
		fmt.Sscanf(hx, "%x", &v)
		if in.hasAcc[who] && v <= in.maxAcc[who] {
			in.bad("c20:nonce-decreased", "stored nonce of %s went from %d to %d", who, in.maxAcc[who], v)
		}
		in.maxAcc[who], in.hasAcc[who] = v, true
		in.commits[fmt.Sprintf("%s/%d", who, v)]++
		in.count("nonce_commits")
	}
	// deliveries / forwards: strictly increasing per author, consistent with the commits of this step
	seenStep := map[string]bool{}
	for _, d := range g.deliv {
		seenStep[d.id] = true
	}
	for _, name := range g.order {
		for _, r := range g.sentTo(name) {
			for _, pm := range r.GetPublish() {
				seenStep[g.msgLabel(pm)] = true
			}
		}
	}
	for label := range seenStep {
		spec, ok := g.msgs[label]
		if !ok {
			continue
		}
		seq, n := vfC20Seq(spec)
		key := fmt.Sprintf("%s/%d", spec.Author, seq)
		if in.accepted[label] {
			continue // further copies of an accepted message on the wire (e.g. forwarded to several peers in later steps)
		}
		if in.commits[key] == 0 || n < 8 {
			in.bad("c20:replay-accepted", "message %s of %s (seqno %d, %d bytes) was delivered / forwarded without a nonce commit of its own (highest accepted %d)", label, spec.Author, seq, n, in.maxAcc[spec.Author])
		} else {
			in.commits[key]--
		}
		in.accepted[label] = true
		in.count("accepted_messages")
	}
	// a replay is ignored: not penalised
	if f[0] == "vrel" && f[3] == "R" {
		in.state["rejected:"+f[2]] = "1" // rejected by the (gated) topic validator: copies of it are penalised by design
	}
	if f[0] == "pub" && g.conn[f[1]] && in.state["rejected:"+f[2]] == "" {
		if len(puts) == 0 {
			in.count("ignored_or_duplicate_copies")
			for _, p := range g.order {
				if post.Invalid[p] != pre.Invalid[p] {
					in.bad("c20:replay-penalised", "an ignored / replayed message changed the invalid-delivery counter of %s from %v to %v", p, pre.Invalid[p], post.Invalid[p])
				}
			}
		}
	}
	return obs
}

func (in *vfC20Inst) Canon() string {
	return in.vfGWInst.Canon() + fmt.Sprintf("\nmaxacc=%v store=%x commits=%v accepted=%v", in.maxAcc, in.g.meta.m[in.g.pid("x")], in.commits, vfKeys(in.accepted))
}

func vfC20Scenarios(thorough bool) []*vfGWScenario {
	var out []*vfGWScenario
	d := 4
	if thorough {
		d = 6
	}
	msgs := map[string]vfMsgSpec{
		"s1": {Topic: "t", Author: "x", Seq: 1, Size: 4}, "s2": {Topic: "t", Author: "x", Seq: 2, Size: 4}, "s2b": {Topic: "t", Author: "x", Seq: 2, Size: 4, Data: "other"},
		"s3": {Topic: "t", Author: "x", Seq: 3, Size: 4}, "smax": {Topic: "t", Author: "x", Seq: ^uint64(0), Size: 4}, "s0": {Topic: "t", Author: "x", Seq: 0, Size: 4},
		"none": {Topic: "t", Author: "x", SeqHex: "-", Size: 4}, "short": {Topic: "t", Author: "x", SeqHex: "000005", Size: 4}, "long": {Topic: "t", Author: "x", SeqHex: "000000000000000409", Size: 4},
	}
	peers := []vfPeerCfg{{Name: "a", Proto: "v11", IP: "10.0.0.1"}, {Name: "b", Proto: "v11", IP: "10.0.0.2"}, {Name: "c", Proto: "v11", IP: "10.0.0.3"}}
	prefix := []string{"conn:a", "conn:b", "conn:c", "sub:a:t", "sub:b:t", "sub:c:t", "join:t"}
	for _, workers := range []int{1, 2} {
		out = append(out, &vfGWScenario{Name: fmt.Sprintf("orders-w%d", workers),
			Cfg:      vfGWCfg{Router: "gossip", Peers: peers, Topics: []string{"t"}, Params: "d2", Scoring: true, ScoreTopics: true, SeenTTL: 2, Workers: workers, Prefix: prefix, Extra: map[string]string{"seqno_validator": "1"}},
			Alphabet: []string{"pub:a:s1", "pub:b:s2", "pub:a:s2b", "pub:b:s3", "pub:a:smax", "pub:b:s0", "pub:a:s1", "pub:b:s1", "adv:63000"}, Msgs: msgs, Depth: d})
	}
	out = append(out, &vfGWScenario{Name: "encodings",
		Cfg:      vfGWCfg{Router: "gossip", Peers: peers, Topics: []string{"t"}, Params: "d2", Scoring: true, ScoreTopics: true, SeenTTL: 2, Prefix: prefix, Extra: map[string]string{"seqno_validator": "1"}},
		Alphabet: []string{"pub:a:none", "pub:a:short", "pub:a:long", "pub:b:s2", "pub:b:s3", "pub:a:s0", "adv:63000"}, Msgs: msgs, Depth: d})
	// a gated topic validator behind the seqno validator keeps messages in flight while others arrive
	out = append(out, &vfGWScenario{Name: "in-flight",
		Cfg: vfGWCfg{Router: "gossip", Peers: peers, Topics: []string{"t"}, Params: "d2", Scoring: true, ScoreTopics: true, SeenTTL: 2, Workers: 2, Prefix: prefix, Extra: map[string]string{"seqno_validator": "1"},
			Validators: []vfValCfg{{Name: "V", Topic: "t", Gated: true, Verdict: "A"}}},
		Alphabet: []string{"pub:a:s1", "pub:b:s2", "pub:a:s3", "pub:b:s1", "vrel:V:s1:A", "vrel:V:s2:A", "vrel:V:s3:A", "vrel:V:s2:R", "adv:63000"}, Msgs: msgs, Depth: d})
	// the same with a node-wide validation throttle of one: while a message is parked in V, whatever else arrives finds
	// the throttle full -- and is dropped, never waved through without having seen the sequence-number validator
	out = append(out, &vfGWScenario{Name: "in-flight-throttled",
		Cfg: vfGWCfg{Router: "gossip", Peers: peers, Topics: []string{"t"}, Params: "d2", Scoring: true, ScoreTopics: true, SeenTTL: 2, Workers: 2, ValThrottle: 1, Prefix: prefix, Extra: map[string]string{"seqno_validator": "1"},
			Validators: []vfValCfg{{Name: "V", Topic: "t", Gated: true, Verdict: "A"}}},
		Alphabet: []string{"pub:a:s1", "pub:b:s2", "pub:a:s3", "pub:b:s1", "pub:b:s0", "vrel:V:s1:A", "vrel:V:s2:A", "vrel:V:s3:A", "adv:63000"}, Msgs: msgs, Depth: d})
	// a slow nonce store: the sequence-number validator's verdict arrives after the topic validator's (the store's reads
	// park until released), for replays after the seen window has expired and for fresh messages
	out = append(out, &vfGWScenario{Name: "slow-store",
		Cfg: vfGWCfg{Router: "gossip", Peers: peers, Topics: []string{"t"}, Params: "d2", Scoring: true, ScoreTopics: true, SeenTTL: 2, Workers: 2, Extra: map[string]string{"seqno_validator": "1"},
			Prefix:     append(append([]string{}, prefix...), "pub:a:s1", "vrel:V:s1:A", "adv:63000"),
			Validators: []vfValCfg{{Name: "V", Topic: "t", Gated: true, Verdict: "A"}}},
		Alphabet: []string{"mhold", "mrel", "pub:b:s1", "pub:b:s0", "pub:a:s2", "vrel:V:s1:A", "vrel:V:s0:A", "vrel:V:s2:A"}, Msgs: msgs, Depth: d})
	// the validator registered inline, in front of other validators (inline and asynchronous) that accept: its Ignore
	// must survive whatever the later ones say
	for _, inlineTopic := range []bool{true, false} {
		name := "inline-seqno-then-async-accept"
		if inlineTopic {
			name = "inline-seqno-then-inline-accept"
		}
		out = append(out, &vfGWScenario{Name: name,
			Cfg: vfGWCfg{Router: "gossip", Peers: peers, Topics: []string{"t"}, Params: "d2", Scoring: true, ScoreTopics: true, SeenTTL: 2, Prefix: prefix, Extra: map[string]string{"seqno_validator": "inline"},
				Validators: []vfValCfg{{Name: "V", Topic: "t", Inline: inlineTopic, Verdict: "A"}}},
			Alphabet: []string{"pub:a:s1", "pub:b:s2", "pub:a:s2b", "pub:b:s3", "pub:b:s0", "pub:b:s1", "adv:63000"}, Msgs: msgs, Depth: d})
	}
	return out
}

func vfC20Mk(x *vfExec, sc *vfGWScenario) vfInstance {
	base := newVfGWInst(x, sc, nil)
	in := &vfC20Inst{vfGWInst: base, maxAcc: map[string]uint64{}, hasAcc: map[string]bool{}, invalid0: map[string]float64{}, commits: map[string]int{}, accepted: map[string]bool{}}
	for k, v := range base.last.Invalid {
		in.invalid0[k] = v
	}
	return in
}

func init() {
	vfRegister("C20", &vfCheck{
		run: func(r *vfRun) {
			if os.Getenv("VF_VARIANT") == "sched" {
				vfC20SchedRun(r)
				return
			}
			vfRunGWScenarios(r, vfC20Scenarios(r.thorough), vfC20Mk)
		},
		replay: func(r *vfRun, raw json.RawMessage) {
			var c struct {
				Variant string `json:"variant"`
			}
			json.Unmarshal(raw, &c)
			if c.Variant == "sched" {
				vfC20SchedReplay(r, raw)
				return
			}
			vfReplayGWScenario(r, raw, vfC20Mk)
		},
	})
}
