package pubsub

// C05: interest announcements converge to the true subscription state.
//
// One real node with two observer peers.  Alphabet: Subscribe (up to two per
// topic) / Cancel / Relay / relay-cancel / Topic.Close, peer connect and
// whole-peer disconnect, outbound stream established later / failing,
// single-direction stream resets with the connection kept, write gates with a
// one-slot queue (so announcements hit a full queue and go through
// announceRetry), time advances.  At every explored state the leaf event
// "quiesce" opens all gates, lets every retry fire and judges:
//   * wire view: the last subscription option each observer saw on its current
//     stream equals "node holds >=1 live non-fanout-only subscription or relay";
//   * node view: ListPeers(t) equals the connected peers interested in t;
//   * a cancelled subscription reports ErrSubscriptionCancelled once drained.

import (
	"context"
	"encoding/json"
	"fmt"
	"sort"
	"strings"
	"testing/synctest"
	"time"
)

type vfC05Inst struct {
	*vfGWInst
	seenOut  map[string]int             // number of outbound streams the node opened to each observer (generation)
	fold     map[string]map[string]bool // observer -> topic -> last announced value on the current stream
	interest map[string]map[string]bool // what each observer currently announces on its live inbound stream
	envFail  map[string]bool            // the environment refused the node's stream to this observer during this connection
	outDead  map[string]int             // times the node's outbound stream to this observer was killed from the far end
	polFail  map[string]bool            // the environment currently refuses streams to this observer
}

func (in *vfC05Inst) absorb() {
	g := in.g
	for _, name := range g.order {
		f := g.fakes[name]
		f.mu.Lock()
		gen := f.nOut
		f.mu.Unlock()
		if gen != in.seenOut[name] {
			in.seenOut[name] = gen
			in.fold[name] = map[string]bool{} // a new stream starts from the hello packet
		}
		for _, r := range g.wire[name] {
			if r.rpc == nil {
				continue
			}
			for _, s := range r.rpc.GetSubscriptions() {
				in.fold[name][s.GetTopicid()] = s.GetSubscribe()
			}
		}
	}
}

func (in *vfC05Inst) trackInterest(ev string) {
	f := strings.Split(ev, ":")
	switch f[0] {
	case "sub":
		in.interest[f[1]][f[2]] = true
	case "unsub":
		delete(in.interest[f[1]], f[2])
	case "sub2":
		for _, t := range strings.Split(f[2], "+") {
			in.interest[f[1]][t] = true
		}
	case "disc", "inclose", "inreset", "inopen":
		in.interest[f[1]] = map[string]bool{}
	case "failstream":
		in.polFail[f[1]] = true
		if in.g.conn[f[1]] {
			in.envFail[f[1]] = true
		}
	case "hold", "release":
		in.polFail[f[1]] = false
	case "conn":
		in.envFail[f[1]] = in.polFail[f[1]]
	case "outreset", "outclose":
		if in.g.fakes[f[1]].outAlive() {
			in.outDead[f[1]]++
		}
	}
	if f[0] == "disc" {
		in.envFail[f[1]] = false
	}
}

func (in *vfC05Inst) Apply(ev string, judge bool) string {
	if ev == "quiesce" {
		return in.quiesce(judge)
	}
	in.trackInterest(ev)
	obs := in.vfGWInst.Apply(ev, judge)
	in.absorb()
	if strings.HasPrefix(ev, "leave:") && judge {
		in.checkCancelled()
	}
	return obs
}

func (in *vfC05Inst) checkCancelled() {
	g := in.g
	for _, s := range g.cancelled {
		ctx, cancel := context.WithCancel(context.Background())
		res := make(chan error, 1)
		go func() {
			for {
				m, err := s.Next(ctx)
				if err != nil {
					res <- err
					return
				}
				_ = m
			}
		}()
		synctest.Wait()
		select {
		case err := <-res:
			if err != ErrSubscriptionCancelled {
				in.bad("c05:cancelled-sub-error", "Next on a cancelled subscription returned %v", err)
			}
			in.count("cancelled_subscriptions_checked")
		default:
			in.bad("c05:cancelled-sub-blocks", "Next on a cancelled, drained subscription blocks")
		}
		cancel()
		synctest.Wait()
	}
}

func (in *vfC05Inst) truth(topic string) bool {
	g := in.g
	if len(g.relays[topic]) > 0 {
		return true
	}
	if len(g.subs[topic]) > 0 && g.cfg.Extra["fanout_only"] != topic {
		return true
	}
	return false
}

func (in *vfC05Inst) quiesce(judge bool) string {
	g := in.g
	in.lastEv = "quiesce"
	g.clearStep()
	// stream goroutines held at a yield point run on
	g.ymu.Lock()
	g.yArmed = map[string]bool{}
	g.ymu.Unlock()
	_, parked := g.yieldState()
	for _, k := range parked {
		g.releaseYield(k)
		synctest.Wait()
		g.collect()
		in.absorb()
	}
	for _, name := range g.order {
		if g.gated[name] {
			g.apply("ungate:" + name)
			in.absorb()
		}
		if g.held[name] {
			g.apply("release:" + name)
			in.absorb()
		}
	}
	// every announceRetry sleeper (<= 1s, possibly chained) and every stream respawn backoff fires
	for i := 0; i < 4; i++ {
		g.apply("adv:1100")
		in.absorb()
	}
	var obs []string
	snap := g.snap()
	for _, name := range g.order {
		if !g.conn[name] {
			continue
		}
		f := g.fakes[name]
		if !f.outAlive() {
			if in.outDead[name] > MaxBackoffAttempts {
				// the library gives a peer up after MaxBackoffAttempts respawns of its outbound stream (the attempts
				// are remembered for ten minutes): resets that persistent are not "transient"
				if judge {
					in.count("observer_given_up_after_max_respawn_attempts")
				}
				continue
			}
			if !in.envFail[name] && !snap.Blacklst[name] && judge {
				in.count("connected_observer_without_outbound_stream")
				in.bad("c05:no-outbound-stream", "observer %s is connected and the environment never refused a stream, but the node has no live outbound stream to it once quiet (queue present: %v)", name, snap.Queues[name])
			}
			continue
		}
		for _, t := range g.cfg.Topics {
			want := in.truth(t)
			got := in.fold[name][t]
			obs = append(obs, fmt.Sprintf("%s:%s=%v", name, t, got))
			if got != want && judge {
				in.bad("c05:announcement-mismatch", "observer %s last saw subscribe=%v for topic %s on its current stream, but the node holds subs=%d relays=%d (want %v)", name, got, t, len(g.subs[t]), len(g.relays[t]), want)
			}
		}
	}
	if judge {
		in.count("quiesce_judged")
		for _, t := range g.cfg.Topics {
			var want []string
			for _, name := range g.order {
				if g.conn[name] && in.interest[name][t] && !snap.Blacklst[name] {
					if !g.fakes[name].outAlive() && in.envFail[name] {
						continue // the environment denied the node a stream: not a pubsub peer
					}
					want = append(want, name)
				}
			}
			got := vfNames(g.n.ps.ListPeers(t))
			sort.Strings(want)
			if strings.Join(got, ",") != strings.Join(want, ",") {
				in.bad("c05:listpeers-mismatch", "ListPeers(%s) = %v, but the connected peers interested in it are %v", t, got, want)
			}
			obs = append(obs, fmt.Sprintf("list(%s)=%v", t, got))
		}
		// GetTopics reports exactly the subscribed topics
		var wantT []string
		for _, t := range g.cfg.Topics {
			if len(g.subs[t]) > 0 {
				wantT = append(wantT, t)
			}
		}
		gotT := g.n.ps.GetTopics()
		sort.Strings(gotT)
		if strings.Join(gotT, ",") != strings.Join(wantT, ",") {
			in.bad("c05:gettopics-mismatch", "GetTopics() = %v, subscriptions held on %v", gotT, wantT)
		}
	}
	return strings.Join(obs, " ")
}

func (in *vfC05Inst) Canon() string {
	var sb strings.Builder
	sb.WriteString(in.vfGWInst.Canon())
	for _, name := range in.g.order {
		fmt.Fprintf(&sb, "\nfold[%s]=%v gen=%d interest=%v envfail=%v/%v outdead=%d", name, vfFoldStr(in.fold[name]), in.seenOut[name], vfKeys(in.interest[name]), in.envFail[name], in.polFail[name], in.outDead[name])
	}
	return sb.String()
}

func vfFoldStr(m map[string]bool) string {
	var l []string
	for k, v := range m {
		l = append(l, fmt.Sprintf("%s=%v", k, v))
	}
	sort.Strings(l)
	return strings.Join(l, ",")
}

func vfC05Scenarios(thorough bool) []*vfGWScenario {
	var out []*vfGWScenario
	d := 6
	if thorough {
		d = 9
	}
	mk := func(name, router string, q int, extra map[string]string, prefix, alphabet []string) {
		proto := "fs"
		if router == "gossip" {
			proto = "v11"
		}
		peers := []vfPeerCfg{{Name: "a", Proto: proto, IP: "10.0.0.1"}, {Name: "b", Proto: proto, IP: "10.0.0.2"}}
		out = append(out, &vfGWScenario{Name: name, Cfg: vfGWCfg{Router: router, Peers: peers, Topics: []string{"t", "u"}, Params: "d2", QueueSize: q, Prefix: prefix, Extra: extra},
			Alphabet: alphabet, Depth: d, Leaf: []string{"quiesce"}, MaxSubs: 2})
	}
	api := []string{"join:t", "leave:t", "relay:t", "unrelay:t", "join:u", "leave:u", "close:t"}
	for _, router := range []string{"flood", "gossip"} {
		mk(router+"-api", router, 0, nil, []string{"conn:a"}, append([]string{"conn:b", "disc:a", "sub:a:t", "unsub:a:t", "sub:b:t"}, api...))
		mk(router+"-streams", router, 0, nil, []string{"join:t"}, []string{"conn:a", "disc:a", "hold:a", "release:a", "failstream:a", "inreset:a", "inopen:a", "outreset:a", "sub:a:t", "leave:t", "join:t", "relay:u", "adv:1100"})
		mk(router+"-retry", router, 1, nil, []string{"conn:a", "conn:b"}, []string{"gate:a", "ungate:a", "join:t", "leave:t", "relay:t", "unrelay:t", "join:u", "leave:u", "adv:1100", "disc:a", "conn:a"})
		// the jitter of a scheduled retry (1..1000 ms) is the explorer's: both ends, per announcing event
		out[len(out)-1].DevKinds, out[len(out)-1].DevMax = []string{"jitter"}, 1
		// the same from a state where a's writer is stuck and its queue is already full, so that the very next
		// announcements are the ones that have to be retried (and can overtake one another)
		mk(router+"-retry-full", router, 1, nil, []string{"conn:a", "conn:b", "join:t", "gate:a", "join:u", "leave:u"},
			[]string{"ungate:a", "join:t", "leave:t", "relay:t", "unrelay:t", "join:u", "leave:u", "adv:1100", "adv:400"})
		out[len(out)-1].DevKinds, out[len(out)-1].DevMax = []string{"jitter"}, 1
		// a congested link with a queue of two: writes get through one at a time (letone), so a retried
		// announcement can land while its opposite is still waiting in the queue
		mk(router+"-retry-congested", router, 2, nil, []string{"conn:a", "conn:b", "join:t", "gate:a", "join:u", "leave:u"},
			[]string{"letone:a", "ungate:a", "join:t", "leave:t", "join:u", "leave:u", "adv:1100", "adv:400"})
		out[len(out)-1].DevKinds, out[len(out)-1].DevMax = []string{"jitter"}, 1
		out[len(out)-1].Depth = d + 1
	}
	// a stream goroutine descheduled between two hand-offs to the event loop (named yield points, one hold at a time)
	for _, router := range []string{"flood", "gossip"} {
		mk(router+"-yield", router, 0, nil, []string{"join:t", "conn:a", "sub:a:t"}, []string{"holdy:inbound-unregistered:a", "rely:inbound-unregistered:a", "holdy:inbound-registered:a", "rely:inbound-registered:a",
			"holdy:outbound-opened:a", "rely:outbound-opened:a", "inreset:a", "inopen:a", "sub:a:t", "disc:a", "conn:a", "outreset:a"})
		out[len(out)-1].Depth = d + 1 // the shortest interesting interleavings need arm, close, reopen, re-announce, release
	}
	// announcements of a peer whose score is below the graylist threshold: its payload and control traffic are
	// ignored, its subscription state is still tracked
	mk("gossip-graylisted", "gossip", 0, nil, []string{"conn:a", "conn:b", "join:t"}, []string{"score:a:-5", "score:a:0", "sub:a:t", "unsub:a:t", "sub:a:u", "sub:b:t", "disc:a", "conn:a", "hb"})
	out[len(out)-1].Cfg.Scoring = true
	// a subscription filter that allows the scenario's topics and up to two subscription entries per RPC: an RPC with
	// exactly two is within the limit
	for _, router := range []string{"flood", "gossip"} {
		mk(router+"-subfilter", router, 0, map[string]string{"subfilter": "limit2"}, []string{"conn:a", "conn:b"},
			[]string{"sub2:a:t+u", "sub:a:t", "unsub:a:t", "sub:b:u", "join:t", "join:u", "leave:t", "disc:a", "conn:a"})
	}
	mk("gossip-fanoutonly", "gossip", 0, map[string]string{"fanout_only": "t"}, []string{"conn:a"}, []string{"join:t", "leave:t", "relay:t", "join:u", "leave:u", "conn:b", "disc:a", "lpub:t:p1", "hb"})
	return out
}

func vfC05Mk(x *vfExec, sc *vfGWScenario) vfInstance {
	base := newVfGWInst(x, sc, nil)
	in := &vfC05Inst{vfGWInst: base, seenOut: map[string]int{}, fold: map[string]map[string]bool{}, interest: map[string]map[string]bool{}, envFail: map[string]bool{}, polFail: map[string]bool{}, outDead: map[string]int{}}
	for _, p := range sc.Cfg.Peers {
		in.fold[p.Name] = map[string]bool{}
		in.interest[p.Name] = map[string]bool{}
	}
	// the prefix already ran: absorb what it put on the wire (the prefix is not cleared for this purpose)
	for _, ev := range sc.Cfg.Prefix {
		in.trackInterest(ev)
	}
	in.rebuildFromPrefix()
	return in
}

// rebuildFromPrefix recomputes the observers' fold after the scenario prefix,
// which newVfGWInst applied (and whose wire log it cleared).
func (in *vfC05Inst) rebuildFromPrefix() {
	g := in.g
	for _, name := range g.order {
		f := g.fakes[name]
		f.mu.Lock()
		in.seenOut[name] = f.nOut
		f.mu.Unlock()
		// after the prefix the network is quiet and no gate is closed: the observer knows the truth
		for _, t := range g.cfg.Topics {
			if in.truth(t) && g.conn[name] {
				in.fold[name][t] = true
			}
		}
	}
}

func init() {
	vfRegister("C05", &vfCheck{
		run:    func(r *vfRun) { vfRunGWScenarios(r, vfC05Scenarios(r.thorough), vfC05Mk) },
		replay: func(r *vfRun, raw json.RawMessage) { vfReplayGWScenario(r, raw, vfC05Mk) },
	})
}

var _ = time.Second
