//go:build vfsched

package pubsub

// C02 / C20 (thread parts): the real time caches and the real
// BasicSeqnoValidator, with their sync imports redirected to the controlled
// scheduler, under every interleaving of small thread sets.

import (
	"context"
	"encoding/binary"
	"encoding/json"
	"fmt"
	"io"
	"log/slog"
	"sort"
	"strings"

	"github.com/libp2p/go-libp2p-pubsub/internal/verifshim/vsync"
	pb "github.com/libp2p/go-libp2p-pubsub/pb"
	"github.com/libp2p/go-libp2p-pubsub/timecache"
	"github.com/libp2p/go-libp2p/core/peer"
)

type vfTScenario struct {
	Kind     string     `json:"kind"` // "timecache" | "seqno"
	Name     string     `json:"name"`
	Strategy int        `json:"strategy,omitempty"`
	Threads  [][]string `json:"threads"`
	Variant  string     `json:"variant"`
	// seqno: the GetFaultAt-th Get of the execution (1-based, in execution order) returns an error (0: none) --
	// a fault point of the metadata store, enumerated together with the schedules
	GetFaultAt int `json:"get_fault_at,omitempty"`
}

type vfTCase struct {
	Scenario *vfTScenario `json:"scenario"`
	Variant  string       `json:"variant"`
	Schedule []int        `json:"schedule"`
	Trace    []string     `json:"trace,omitempty"`
}

type vfTOp struct {
	thread        int
	op            string
	callAt, retAt int
	res           string
}

type vfTRun struct {
	sc    *vfTScenario
	sched *vsync.Sched
	hist  []string
	ops   []*vfTOp
	tc    timecache.TimeCache
	val   ValidatorEx
	store *vfSchedStore
}

// vfSchedStore: PeerMetadataStore whose Get/Put are scheduling points.
type vfSchedStore struct {
	v             []byte
	puts          []uint64
	gets, faultAt int
}

func (s *vfSchedStore) Get(ctx context.Context, p peer.ID) ([]byte, error) {
	vsync.YieldPoint("store.Get")
	s.gets++
	if s.faultAt > 0 && s.gets == s.faultAt {
		return nil, fmt.Errorf("injected metadata store fault at Get #%d", s.gets)
	}
	return s.v, nil
}
func (s *vfSchedStore) Put(ctx context.Context, p peer.ID, v []byte) error {
	vsync.YieldPoint("store.Put")
	s.v = append([]byte{}, v...)
	s.puts = append(s.puts, binary.BigEndian.Uint64(v))
	return nil
}

func vfTBuild(sc *vfTScenario) *vfTRun {
	r := &vfTRun{sc: sc, sched: vsync.New()}
	switch sc.Kind {
	case "timecache":
		r.tc = timecache.NewTimeCacheWithStrategy(timecache.Strategy(sc.Strategy), 0x7fffffffffff)
	case "seqno":
		r.store = &vfSchedStore{faultAt: sc.GetFaultAt}
		r.val = NewBasicSeqnoValidator(r.store, slog.New(slog.NewTextHandler(io.Discard, nil)))
	}
	for ti, ops := range sc.Threads {
		ti, ops := ti, ops
		r.sched.Spawn(fmt.Sprintf("T%d", ti), func() {
			for _, o := range ops {
				rec := &vfTOp{thread: ti, op: o, callAt: len(r.hist), retAt: -1}
				r.ops = append(r.ops, rec)
				r.hist = append(r.hist, fmt.Sprintf("call T%d.%s", ti, o))
				rec.res = r.do(o)
				rec.retAt = len(r.hist)
				r.hist = append(r.hist, fmt.Sprintf("ret T%d.%s=%s", ti, o, rec.res))
			}
		})
	}
	r.sched.Extra = func() string {
		st := ""
		if r.store != nil {
			st = fmt.Sprintf("%x|%v", r.store.v, r.store.puts)
		}
		return st + " H=" + strings.Join(r.hist, ";")
	}
	return r
}

func (r *vfTRun) do(o string) string {
	name, arg, _ := strings.Cut(o, ":")
	switch name {
	case "add":
		return fmt.Sprint(r.tc.Add(arg))
	case "has":
		return fmt.Sprint(r.tc.Has(arg))
	case "val":
		var n uint64
		fmt.Sscanf(arg, "%d", &n)
		if arg == "max" {
			n = ^uint64(0)
		}
		seq := make([]byte, 8)
		binary.BigEndian.PutUint64(seq, n)
		topic := "t"
		m := &Message{Message: &pb.Message{From: []byte("author"), Seqno: seq, Topic: &topic}}
		switch r.val(context.Background(), peer.ID("fwd"), m) {
		case ValidationAccept:
			return "accept"
		case ValidationIgnore:
			return "ignore"
		case ValidationReject:
			return "reject"
		}
		return "?"
	}
	panic("unknown op " + o)
}

func (r *vfTRun) Sched() *vsync.Sched { return r.sched }
func (r *vfTRun) Cleanup() {
	if r.tc != nil {
		r.tc.Done() // stop the background sweeper of this execution's cache
	}
}
func (r *vfTRun) Case(choices []int) any {
	return vfTCase{Scenario: r.sc, Variant: "sched", Schedule: choices, Trace: r.sched.Trace}
}

// set-semantics linearisation for the time cache (no expiry inside a scenario)
func vfTCLinearizable(ops []*vfTOp) bool {
	used := make([]bool, len(ops))
	var rec func(set map[string]bool, left int) bool
	rec = func(set map[string]bool, left int) bool {
		if left == 0 {
			return true
		}
		for i, o := range ops {
			if used[i] {
				continue
			}
			ok := true
			for j, p := range ops {
				if j != i && !used[j] && p.retAt >= 0 && p.retAt < o.callAt {
					ok = false
				}
			}
			if !ok {
				continue
			}
			name, k, _ := strings.Cut(o.op, ":")
			ns := set
			good := false
			switch name {
			case "add":
				good = o.res == fmt.Sprint(!set[k])
				if !set[k] {
					ns = map[string]bool{}
					for a, b := range set {
						ns[a] = b
					}
					ns[k] = true
				}
			case "has":
				good = o.res == fmt.Sprint(set[k])
			}
			if !good {
				continue
			}
			used[i] = true
			if rec(ns, left-1) {
				return true
			}
			used[i] = false
		}
		return false
	}
	return rec(map[string]bool{}, len(ops))
}

func (r *vfTRun) Judge(vr *vfRun, choices []int, report bool) string {
	s := r.sched
	c := r.Case(choices)
	pfx := "c02sched:"
	if r.sc.Kind == "seqno" {
		pfx = "c20sched:"
	}
	bad := func(fp, format string, a ...any) {
		if report {
			vr.violation(pfx+fp, fmt.Sprintf("[%s] ", r.sc.Name)+fmt.Sprintf(format, a...)+" | history: "+strings.Join(r.hist, "; "), c)
		}
	}
	for name, p := range s.Panics() {
		bad("panic", "thread %s panicked: %v", name, p)
	}
	if s.Deadlock {
		bad("deadlock", "threads blocked forever: %v", s.Unfinished())
	}
	if s.Overrun {
		bad("livelock", "execution exceeded %d steps", s.MaxSteps)
	}
	switch r.sc.Kind {
	case "timecache":
		for _, o := range r.ops {
			if o.retAt < 0 {
				return "incomplete"
			}
		}
		if !vfTCLinearizable(r.ops) {
			bad("not-linearizable", "Add/Has history does not linearise to a set (exactly one of racing Adds of a key must report 'newly added')")
		}
		news := map[string]int{}
		for _, o := range r.ops {
			if strings.HasPrefix(o.op, "add:") && o.res == "true" {
				news[o.op[4:]]++
			}
		}
		for k, n := range news {
			if n > 1 {
				bad("double-add", "%d Adds of key %s reported 'newly added'", n, k)
			}
		}
	case "seqno":
		// the stored nonce never decreases and every Put is strictly greater than the previous one
		prev := uint64(0)
		for i, v := range r.store.puts {
			if i > 0 && v <= prev {
				bad("nonce-decreased", "stored nonce went from %d to %d", prev, v)
			}
			prev = v
		}
		var accepted []uint64
		for _, o := range r.ops {
			if o.res == "accept" {
				var n uint64
				fmt.Sscanf(o.op[4:], "%d", &n)
				if o.op[4:] == "max" {
					n = ^uint64(0)
				}
				accepted = append(accepted, n)
			}
		}
		sort.Slice(accepted, func(i, j int) bool { return accepted[i] < accepted[j] })
		for i := 1; i < len(accepted); i++ {
			if accepted[i] == accepted[i-1] {
				bad("replay-accepted", "sequence number %d was accepted twice", accepted[i])
			}
		}
		if len(accepted) != len(r.store.puts) {
			bad("accept-without-commit", "%d messages accepted but %d nonce updates committed", len(accepted), len(r.store.puts))
		} else {
			// acceptance order = commit order: must be strictly increasing, i.e. equal to the sorted list
			for i := range accepted {
				if r.store.puts[i] != accepted[i] {
					bad("acceptance-order", "nonces committed in order %v, accepted set %v", r.store.puts, accepted)
					break
				}
			}
		}
		if len(r.store.puts) > 0 {
			if got := binary.BigEndian.Uint64(r.store.v); len(accepted) > 0 && got != accepted[len(accepted)-1] {
				bad("nonce-not-max", "stored nonce %d is not the highest accepted sequence number %d", got, accepted[len(accepted)-1])
			}
		}
		// a message not greater than an already *committed* nonce at its call time must be ignored: implied by the above
	}
	var res []string
	for _, o := range r.ops {
		res = append(res, fmt.Sprintf("T%d.%s=%s", o.thread, o.op, o.res))
	}
	sort.Strings(res)
	return strings.Join(res, " ")
}

func vfC02SchedScenarios(thorough bool) []*vfTScenario {
	l := func(s ...string) []string { return s }
	var out []*vfTScenario
	for st := 0; st < 2; st++ {
		out = append(out,
			&vfTScenario{Kind: "timecache", Variant: "sched", Strategy: st, Name: fmt.Sprintf("tc%d-add-add", st), Threads: [][]string{l("add:x"), l("add:x")}},
			&vfTScenario{Kind: "timecache", Variant: "sched", Strategy: st, Name: fmt.Sprintf("tc%d-add-add-has", st), Threads: [][]string{l("add:x"), l("add:x"), l("has:x", "has:x")}},
			&vfTScenario{Kind: "timecache", Variant: "sched", Strategy: st, Name: fmt.Sprintf("tc%d-two-keys", st), Threads: [][]string{l("add:x", "has:y"), l("add:y", "has:x"), l("add:x")}},
		)
		if thorough {
			out = append(out, &vfTScenario{Kind: "timecache", Variant: "sched", Strategy: st, Name: fmt.Sprintf("tc%d-3adders", st), Threads: [][]string{l("add:x", "has:x"), l("add:x", "add:x"), l("has:x", "add:x")}})
		}
	}
	return out
}

func vfC20SchedScenarios(thorough bool) []*vfTScenario {
	l := func(s ...string) []string { return s }
	out := []*vfTScenario{
		{Kind: "seqno", Variant: "sched", Name: "same-seqno-twice", Threads: [][]string{l("val:2"), l("val:2")}},
		{Kind: "seqno", Variant: "sched", Name: "competing-1-2", Threads: [][]string{l("val:1"), l("val:2")}},
		{Kind: "seqno", Variant: "sched", Name: "three-1-2-2", Threads: [][]string{l("val:1"), l("val:2"), l("val:2")}},
		{Kind: "seqno", Variant: "sched", Name: "decreasing-run", Threads: [][]string{l("val:2", "val:1"), l("val:1", "val:0")}},
		{Kind: "seqno", Variant: "sched", Name: "max-and-zero", Threads: [][]string{l("val:max"), l("val:0", "val:2")}},
		// sequence numbers spanning more than half of the uint64 range (2^62, 2^63+5, 2^64-1), reached in steps
		// of less than 2^63, then replays far below the nonce
		{Kind: "seqno", Variant: "sched", Name: "wide-range-replay", Threads: [][]string{l("val:3", "val:4611686018427387904", "val:9223372036854775813", "val:3", "val:4")}},
		{Kind: "seqno", Variant: "sched", Name: "wide-range-max", Threads: [][]string{l("val:100", "val:4611686018427387904", "val:13835058055282163711", "val:max", "val:100", "val:101")}},
		{Kind: "seqno", Variant: "sched", Name: "wide-range-racing", Threads: [][]string{l("val:3", "val:4611686018427387904", "val:3"), l("val:9223372036854775813", "val:5")}},
	}
	// metadata-store faults: every Get of the execution in turn fails (a read that fails must end in Ignore; in
	// particular the re-read under the exclusive lock must not fall back on the optimistic first read)
	for k := 1; k <= 4; k++ {
		out = append(out, &vfTScenario{Kind: "seqno", Variant: "sched", Name: fmt.Sprintf("competing-1-2-getfault%d", k), Threads: [][]string{l("val:1"), l("val:2")}, GetFaultAt: k})
	}
	for k := 1; k <= 6; k++ {
		out = append(out, &vfTScenario{Kind: "seqno", Variant: "sched", Name: fmt.Sprintf("decreasing-pair-getfault%d", k), Threads: [][]string{l("val:2", "val:1"), l("val:3")}, GetFaultAt: k})
	}
	if thorough {
		out = append(out, &vfTScenario{Kind: "seqno", Variant: "sched", Name: "three-threads-mixed", Threads: [][]string{l("val:1", "val:3"), l("val:2"), l("val:2", "val:max")}})
	}
	return out
}

func vfTRunScenarios(r *vfRun, scs []*vfTScenario) {
	maxB := 2
	if r.thorough {
		maxB = 3
	}
	for _, sc := range scs {
		if _, ok := r.nextCase(); !ok {
			continue
		}
		sc := sc
		vfSchedExplore(r, sc.Name, func() vfSchedRunI { return vfTBuild(sc) }, maxB, true)
	}
}

func vfC02SchedRun(r *vfRun) { vfTRunScenarios(r, vfC02SchedScenarios(r.thorough)) }
func vfC20SchedRun(r *vfRun) { vfTRunScenarios(r, vfC20SchedScenarios(r.thorough)) }

func vfTReplay(r *vfRun, raw json.RawMessage) {
	var c vfTCase
	if err := json.Unmarshal(raw, &c); err != nil || c.Scenario == nil {
		r.harnessError("bad sched case: %v", err)
		return
	}
	run := vfTBuild(c.Scenario)
	run.sched.Run(c.Schedule)
	r.res.Executions++
	out := run.Judge(r, run.sched.Choices, true)
	fmt.Println(strings.Join(run.sched.Trace, "\n"))
	fmt.Println(strings.Join(run.hist, "\n"))
	fmt.Println(out)
}

func vfC02SchedReplay(r *vfRun, raw json.RawMessage) { vfTReplay(r, raw) }
func vfC20SchedReplay(r *vfRun, raw json.RawMessage) { vfTReplay(r, raw) }
