package pubsub

// Explorer-owned random choices.  Under build tag verif the router's shuffle
// functions, the promise index and the gater coin call into verifHooks; here
// they are bound to a chooser that first canonicalises the input (sorting
// removes the dependence on map iteration order) and then takes the default
// answer at every choice point unless the current event carries an override
// ("ev!k=v": at choice point k of this event take v).

import (
	"fmt"
	"sort"
	"strconv"
	"strings"
	"sync"

	pb "github.com/libp2p/go-libp2p-pubsub/pb"
	"github.com/libp2p/go-libp2p/core/peer"
)

type vfChoicePoint struct {
	Kind string
	N    int // number of options
	Def  int // default option
	Got  int // option taken
}

type vfChooser struct {
	mu       sync.Mutex
	log      []vfChoicePoint
	override map[int]int
	coinDef  bool // default gater coin answer (true = accept)
}

var vfCh = &vfChooser{coinDef: true}

func (c *vfChooser) begin(override map[int]int) {
	c.mu.Lock()
	c.log = c.log[:0]
	c.override = override
	c.mu.Unlock()
}

// points returns the choice points met since begin.
func (c *vfChooser) points() []vfChoicePoint {
	c.mu.Lock()
	defer c.mu.Unlock()
	return append([]vfChoicePoint{}, c.log...)
}

func (c *vfChooser) choose(kind string, n, def int) int {
	c.mu.Lock()
	defer c.mu.Unlock()
	k := len(c.log)
	got := def
	if v, ok := c.override[k]; ok && v >= 0 && v < n {
		got = v
	}
	c.log = append(c.log, vfChoicePoint{kind, n, def, got})
	return got
}

func (c *vfChooser) shuffle(kind string, n int, swap func(i, j int)) {
	// Fisher-Yates with every j owned by the explorer; default j == i (identity)
	for i := 1; i < n; i++ {
		j := c.choose(kind, i+1, i)
		if j != i {
			swap(i, j)
		}
	}
}

func vfInstallHooks() {
	verifHooks.shufflePeers = func(l []peer.ID) bool {
		sort.Slice(l, func(i, j int) bool { return vfName(l[i]) < vfName(l[j]) })
		vfCh.shuffle("peers", len(l), func(i, j int) { l[i], l[j] = l[j], l[i] })
		return true
	}
	verifHooks.shufflePeerInfo = func(l []*pb.PeerInfo) bool {
		sort.Slice(l, func(i, j int) bool { return string(l[i].GetPeerID()) < string(l[j].GetPeerID()) })
		vfCh.shuffle("peerinfo", len(l), func(i, j int) { l[i], l[j] = l[j], l[i] })
		return true
	}
	verifHooks.shuffleStrings = func(l []string) bool {
		sort.Strings(l)
		vfCh.shuffle("strings", len(l), func(i, j int) { l[i], l[j] = l[j], l[i] })
		return true
	}
	verifHooks.pick = func(idx, n int) int { return vfCh.choose("pick", n, 0) }
	verifHooks.pickPeer = func(ids []peer.ID) int {
		// map iteration order would decide; canonical order, the explorer picks
		sort.Slice(ids, func(i, j int) bool { return vfName(ids[i]) < vfName(ids[j]) })
		return vfCh.choose("event", len(ids), 0)
	}
	verifHooks.coin = func(th float64) (bool, bool) {
		def := 0
		if !vfCh.coinDef {
			def = 1
		}
		return vfCh.choose("coin", 2, def) == 0, true
	}
}

func init() { vfInstallHooks() }

// vfSplitChoice splits "ev!3=1!5=0" into the base event and its overrides.
func vfSplitChoice(ev string) (string, map[int]int) {
	parts := strings.Split(ev, "!")
	if len(parts) == 1 {
		return ev, nil
	}
	ov := map[int]int{}
	for _, p := range parts[1:] {
		k, v, ok := strings.Cut(p, "=")
		if !ok {
			continue
		}
		ki, _ := strconv.Atoi(k)
		vi, _ := strconv.Atoi(v)
		ov[ki] = vi
	}
	return parts[0], ov
}

// vfDeviations lists the single-deviation variants of ev given the choice
// points its default run met (only points whose alternative changes the result
// are worth it, but that is not known here: all are listed, capped).
func vfDeviations(ev string, pts []vfChoicePoint, maxPoints int) []string {
	var out []string
	for k, p := range pts {
		if k >= maxPoints {
			break
		}
		for v := 0; v < p.N; v++ {
			if v != p.Def {
				out = append(out, fmt.Sprintf("%s!%d=%d", ev, k, v))
			}
		}
	}
	return out
}
