package pubsub

// Explorer-owned random choices.  Under build tag verif the router's shuffle
// functions, the promise index and the gater coin call into verifHooks; here
// they are bound to a chooser that first canonicalises the input (sorting
// removes the dependence on map iteration order) and then takes the default
// answer at every choice point unless the current event carries an override
// ("ev!k=v": at choice point k of this event take v).

import (
	"crypto/sha256"
	"fmt"
	"sort"
	"strconv"
	"strings"
	"sync"

	pb "github.com/libp2p/go-libp2p-pubsub/pb"
	"github.com/libp2p/go-libp2p/core/peer"
)

type vfChoicePoint struct {
	Kind string
	Key  string // stable identity: kind, a signature of the question (the canonical list) and the position in it
	N    int    // number of options
	Def  int    // default option
	Got  int    // option taken
}

type vfChooser struct {
	mu       sync.Mutex
	log      []vfChoicePoint
	override map[string]int
	jitters  int  // jitter draws so far in this execution (each gets its own instant)
	coinDef  bool // default gater coin answer (true = accept)
}

var vfCh = &vfChooser{coinDef: true}

// newExecution resets what is counted per execution.
func (c *vfChooser) newExecution() {
	c.mu.Lock()
	c.jitters = 0
	c.mu.Unlock()
}

func (c *vfChooser) begin(override map[string]int) {
	c.mu.Lock()
	c.log = c.log[:0]
	c.override = override
	c.mu.Unlock()
}

// points returns the choice points met since begin.
func (c *vfChooser) points() []vfChoicePoint {
	c.mu.Lock()
	defer c.mu.Unlock()
	return append([]vfChoicePoint{}, c.log...)
}

// choose answers one choice point.  Points are identified by what is asked (kind, signature of the canonical
// input, position), not by the order in which they are met: the library meets them in map-iteration order (e.g.
// the heartbeat walks its topics in random order), and an override must mean the same thing in every run.  Every
// occurrence of the same question within one event gets the same answer.
func (c *vfChooser) choose(kind, sig string, pos, n, def int) int {
	c.mu.Lock()
	defer c.mu.Unlock()
	key := fmt.Sprintf("%s:%s.%d", kind, sig, pos)
	got := def
	if v, ok := c.override[key]; ok && v >= 0 && v < n {
		got = v
	}
	c.log = append(c.log, vfChoicePoint{kind, key, n, def, got})
	return got
}

func (c *vfChooser) shuffle(kind, sig string, n int, swap func(i, j int)) {
	// Fisher-Yates with every j owned by the explorer; default j == i (identity)
	for i := 1; i < n; i++ {
		j := c.choose(kind, sig, i, i+1, i)
		if j != i {
			swap(i, j)
		}
	}
}

func vfSig(parts []string) string {
	s := strings.Join(parts, ",")
	if len(s) <= 24 && !strings.ContainsAny(s, "!=") {
		return s
	}
	h := sha256.Sum256([]byte(s))
	return fmt.Sprintf("%d#%x", len(parts), h[:4])
}

func vfInstallHooks() {
	verifHooks.shufflePeers = func(l []peer.ID) bool {
		sort.Slice(l, func(i, j int) bool { return vfName(l[i]) < vfName(l[j]) })
		vfCh.shuffle("peers", vfSig(vfNames(l)), len(l), func(i, j int) { l[i], l[j] = l[j], l[i] })
		return true
	}
	verifHooks.shufflePeerInfo = func(l []*pb.PeerInfo) bool {
		sort.Slice(l, func(i, j int) bool { return string(l[i].GetPeerID()) < string(l[j].GetPeerID()) })
		var names []string
		for _, pi := range l {
			names = append(names, vfName(peer.ID(pi.GetPeerID())))
		}
		vfCh.shuffle("peerinfo", vfSig(names), len(l), func(i, j int) { l[i], l[j] = l[j], l[i] })
		return true
	}
	verifHooks.shuffleStrings = func(l []string) bool {
		sort.Strings(l)
		vfCh.shuffle("strings", vfSig(l), len(l), func(i, j int) { l[i], l[j] = l[j], l[i] })
		return true
	}
	verifHooks.pick = func(idx, n int) int {
		if n > 64 {
			// a draw from a large range (the announce-retry jitter, 1..1000 ms): the explorer owns the two ends;
			// successive draws of one execution land on distinct instants (sleepers that wake at the same virtual
			// instant run in an order nobody owns)
			vfCh.mu.Lock()
			k := vfCh.jitters % 32
			vfCh.jitters++
			vfCh.mu.Unlock()
			if vfCh.choose("jitter", fmt.Sprint(n), 0, 2, 0) == 1 {
				return n - 1 - k
			}
			return k
		}
		return vfCh.choose("pick", "", 0, n, 0)
	}
	verifHooks.pickPeer = func(ids []peer.ID) int {
		// map iteration order would decide; canonical order, the explorer picks
		sort.Slice(ids, func(i, j int) bool { return vfName(ids[i]) < vfName(ids[j]) })
		return vfCh.choose("event", vfSig(vfNames(ids)), 0, len(ids), 0)
	}
	verifHooks.coin = func(th float64) (bool, bool) {
		def := 0
		if !vfCh.coinDef {
			def = 1
		}
		return vfCh.choose("coin", "", 0, 2, def) == 0, true
	}
}

func init() { vfInstallHooks() }

// vfSplitChoice splits "ev!peers:a,b,c.2=1!coin:.0=1" into the base event and its overrides.
func vfSplitChoice(ev string) (string, map[string]int) {
	parts := strings.Split(ev, "!")
	if len(parts) == 1 {
		return ev, nil
	}
	ov := map[string]int{}
	for _, p := range parts[1:] {
		i := strings.LastIndex(p, "=")
		if i < 0 {
			continue
		}
		vi, _ := strconv.Atoi(p[i+1:])
		ov[p[:i]] = vi
	}
	return parts[0], ov
}

// vfDeviations lists the single-deviation variants of ev: one per distinct question of an allowed kind that the
// default run met and per non-default answer, questions in sorted order (the order they were met in is not
// deterministic), at most maxPoints questions.
func vfDeviations(ev string, pts []vfChoicePoint, kinds []string, maxPoints int) []string {
	if strings.Contains(ev, "!") {
		return nil
	}
	byKey := map[string]vfChoicePoint{}
	var keys []string
	for _, p := range pts {
		ok := len(kinds) == 0
		for _, k := range kinds {
			if k == p.Kind {
				ok = true
			}
		}
		if !ok || p.N < 2 {
			continue
		}
		if _, dup := byKey[p.Key]; !dup {
			byKey[p.Key] = p
			keys = append(keys, p.Key)
		}
	}
	sort.Strings(keys)
	var out []string
	for i, k := range keys {
		if maxPoints > 0 && i >= maxPoints {
			break
		}
		p := byKey[k]
		for v := 0; v < p.N; v++ {
			if v != p.Def {
				out = append(out, fmt.Sprintf("%s!%s=%d", ev, k, v))
			}
		}
	}
	return out
}
