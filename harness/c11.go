package pubsub

// C11: splitting an oversized RPC loses nothing and respects the size limit.
//
// Part 1 (inputs): every RPC shape of a finite alphabet x every integer limit
// from 1 to size+2, through RPC.split directly.
// Part 2 (sendRPC): the same shapes for a band of limits through the real
// GossipSubRouter.sendRPC into a real (gated) outbound queue; what is queued and
// what is reported as dropped must partition the original content.
//
// Oracle: canonical content multiset.  An element "fits by itself" iff an RPC
// holding only that element (with its enclosing control / IHAVE-topic wrapper)
// is within the limit (DESIGN.md §5.1).

import (
	"encoding/json"
	"fmt"
	"sort"
	"strings"
	"testing/synctest"

	pb "github.com/libp2p/go-libp2p-pubsub/pb"
	"github.com/libp2p/go-libp2p/core/peer"
	"github.com/libp2p/go-libp2p/core/protocol"
)

type vfElem struct {
	key   string // canonical identity of the element
	alone int    // size of an RPC that holds only this element
	isMsg bool
}

func vfMarshalKey(kind string, m interface{ Marshal() ([]byte, error) }) string {
	b, _ := m.Marshal()
	return kind + ":" + fmt.Sprintf("%x", b)
}

// vfRPCElements decomposes an RPC into its elements, in canonical order of appearance.
func vfRPCElements(r *RPC) []vfElem {
	var out []vfElem
	for _, m := range r.Publish {
		one := RPC{RPC: pb.RPC{Publish: []*pb.Message{m}}}
		out = append(out, vfElem{key: vfMarshalKey("msg", m), alone: one.Size(), isMsg: true})
	}
	for _, s := range r.Subscriptions {
		one := RPC{RPC: pb.RPC{Subscriptions: []*pb.RPC_SubOpts{s}}}
		out = append(out, vfElem{key: vfMarshalKey("sub", s), alone: one.Size()})
	}
	if c := r.Control; c != nil {
		ctl := func(c *pb.ControlMessage) int { one := RPC{RPC: pb.RPC{Control: c}}; return one.Size() }
		for _, g := range c.Graft {
			out = append(out, vfElem{key: vfMarshalKey("graft", g), alone: ctl(&pb.ControlMessage{Graft: []*pb.ControlGraft{g}})})
		}
		for _, p := range c.Prune {
			out = append(out, vfElem{key: vfMarshalKey("prune", p), alone: ctl(&pb.ControlMessage{Prune: []*pb.ControlPrune{p}})})
		}
		for _, ih := range c.Ihave {
			for _, id := range ih.MessageIDs {
				out = append(out, vfElem{key: "ihave:" + ih.GetTopicID() + ":" + id,
					alone: ctl(&pb.ControlMessage{Ihave: []*pb.ControlIHave{{TopicID: ih.TopicID, MessageIDs: []string{id}}}})})
			}
		}
		for _, iw := range c.Iwant {
			for _, id := range iw.MessageIDs {
				out = append(out, vfElem{key: "iwant:" + id, alone: ctl(&pb.ControlMessage{Iwant: []*pb.ControlIWant{{MessageIDs: []string{id}}}})})
			}
		}
		for _, dw := range c.Idontwant {
			for _, id := range dw.MessageIDs {
				out = append(out, vfElem{key: "idontwant:" + id, alone: ctl(&pb.ControlMessage{Idontwant: []*pb.ControlIDontWant{{MessageIDs: []string{id}}}})})
			}
		}
		if c.Extensions != nil {
			out = append(out, vfElem{key: vfMarshalKey("ext", c.Extensions), alone: ctl(&pb.ControlMessage{Extensions: c.Extensions})})
		}
	}
	if r.Partial != nil {
		one := RPC{RPC: pb.RPC{Partial: r.Partial}}
		out = append(out, vfElem{key: vfMarshalKey("partial", r.Partial), alone: one.Size()})
	}
	if r.TestExtension != nil {
		one := RPC{RPC: pb.RPC{TestExtension: r.TestExtension}}
		out = append(out, vfElem{key: "testext", alone: one.Size()})
	}
	return out
}

type vfC11Shape struct {
	Msgs    []int `json:"msgs"`
	Subs    int   `json:"subs"`
	Graft   int   `json:"graft"`
	Prune   int   `json:"prune"`
	Ihave   int   `json:"ihave"`
	Iwant   int   `json:"iwant"`
	Idw     int   `json:"idw"`
	Ext     bool  `json:"ext"`
	Partial bool  `json:"partial"`
	TestExt bool  `json:"testext"`
}

type vfC11Case struct {
	Part  string     `json:"part"`
	Shape vfC11Shape `json:"shape"`
	Limit int        `json:"limit"`
	Piggy bool       `json:"piggy,omitempty"` // a retried PRUNE and pending IHAVE gossip wait to be piggybacked by sendRPC
}

func vfC11Build(s vfC11Shape) *RPC {
	r := &RPC{from: peer.ID("from")}
	for i, sz := range s.Msgs {
		topic := "topic"
		data := make([]byte, sz)
		for j := range data {
			data[j] = byte('a' + i)
		}
		r.Publish = append(r.Publish, &pb.Message{Data: data, Topic: &topic, Seqno: []byte{byte(i)}})
	}
	for i := 0; i < s.Subs; i++ {
		t := fmt.Sprintf("subtopic-%d", i)
		sub := i%2 == 0
		r.Subscriptions = append(r.Subscriptions, &pb.RPC_SubOpts{Topicid: &t, Subscribe: &sub})
	}
	ctl := &pb.ControlMessage{}
	used := false
	for i := 0; i < s.Graft; i++ {
		t := fmt.Sprintf("grafttopic-%d", i)
		ctl.Graft = append(ctl.Graft, &pb.ControlGraft{TopicID: &t})
		used = true
	}
	for i := 0; i < s.Prune; i++ {
		t := fmt.Sprintf("prunetopic-%d", i)
		bo := uint64(60 + i)
		pr := &pb.ControlPrune{TopicID: &t, Backoff: &bo}
		if i == 1 {
			pr.Peers = []*pb.PeerInfo{{PeerID: []byte("peer-one-id")}, {PeerID: []byte("peer-two-id"), SignedPeerRecord: []byte("0123456789abcdef0123456789abcdef")}}
		}
		ctl.Prune = append(ctl.Prune, pr)
		used = true
	}
	mid := func(k string, i int) string { return fmt.Sprintf("%s-message-id-%02d", k, i) }
	switch s.Ihave {
	case 1:
		t := "ihavetopic-0"
		ctl.Ihave = []*pb.ControlIHave{{TopicID: &t, MessageIDs: []string{mid("h", 0)}}}
	case 2:
		t := "ihavetopic-0"
		ctl.Ihave = []*pb.ControlIHave{{TopicID: &t, MessageIDs: []string{mid("h", 0), mid("h", 1), mid("h", 2)}}}
	case 3:
		t0, t1 := "ihavetopic-0", "ihavetopic-1"
		ctl.Ihave = []*pb.ControlIHave{{TopicID: &t0, MessageIDs: []string{mid("h", 0), mid("h", 1)}}, {TopicID: &t1, MessageIDs: []string{mid("h", 2)}}}
	}
	switch s.Iwant {
	case 1:
		ctl.Iwant = []*pb.ControlIWant{{MessageIDs: []string{mid("w", 0)}}}
	case 2:
		ctl.Iwant = []*pb.ControlIWant{{MessageIDs: []string{mid("w", 0), mid("w", 1), mid("w", 2)}}}
	case 3:
		ctl.Iwant = []*pb.ControlIWant{{MessageIDs: []string{mid("w", 0), mid("w", 1)}}, {MessageIDs: []string{mid("w", 2)}}}
	}
	switch s.Idw {
	case 1:
		ctl.Idontwant = []*pb.ControlIDontWant{{MessageIDs: []string{mid("d", 0)}}}
	case 2:
		ctl.Idontwant = []*pb.ControlIDontWant{{MessageIDs: []string{mid("d", 0), mid("d", 1), mid("d", 2)}}}
	}
	if s.Ihave > 0 || s.Iwant > 0 || s.Idw > 0 {
		used = true
	}
	if s.Ext {
		tr := true
		ctl.Extensions = &pb.ControlExtensions{PartialMessages: &tr, TestExtension: &tr}
		used = true
	}
	if used {
		r.Control = ctl
	}
	if s.Partial {
		t := "partialtopic"
		r.Partial = &pb.PartialMessagesExtension{TopicID: &t, GroupID: []byte("group-1"), PartialMessage: []byte("partial-payload-0123456789"), PartsMetadata: []byte{1, 2, 3}}
	}
	if s.TestExt {
		r.TestExtension = &pb.TestExtension{}
	}
	return r
}

func vfC11Shapes(thorough bool) []vfC11Shape {
	msgs := [][]int{nil, {10}, {200}, {10, 60}, {200, 10}, {10, 200, 60}}
	subs, graft, prune := []int{0, 2}, []int{0, 2}, []int{0, 2}
	ihave, iwant, idw := []int{0, 2, 3}, []int{0, 2}, []int{0, 2}
	if thorough {
		msgs = [][]int{nil, {10}, {60}, {200}, {10, 10}, {10, 60}, {60, 10}, {200, 10}, {10, 200}, {10, 60, 200}, {200, 10, 60}, {60, 60, 60}}
		subs, graft, prune = []int{0, 1, 2}, []int{0, 1, 2}, []int{0, 1, 2}
		ihave, iwant, idw = []int{0, 1, 2, 3}, []int{0, 1, 2, 3}, []int{0, 1, 2}
	}
	var out []vfC11Shape
	bools := []bool{false, true}
	for _, m := range msgs {
		for _, s := range subs {
			for _, g := range graft {
				for _, p := range prune {
					for _, ih := range ihave {
						for _, iw := range iwant {
							for _, dw := range idw {
								for _, e := range bools {
									for _, pa := range bools {
										for _, te := range bools {
											out = append(out, vfC11Shape{m, s, g, p, ih, iw, dw, e, pa, te})
										}
									}
								}
							}
						}
					}
				}
			}
		}
	}
	return out
}

// vfC11Judge checks fragments (already collected) against the original.
func vfC11Judge(orig *RPC, frags []*RPC, limit int, report func(fp, msg string)) (nontrivial bool) {
	want := vfRPCElements(orig)
	wantCount := map[string]int{}
	alone := map[string]int{}
	var wantMsgs []string
	for _, e := range want {
		wantCount[e.key]++
		alone[e.key] = e.alone
		if e.isMsg {
			wantMsgs = append(wantMsgs, e.key)
		}
	}
	got := map[string]int{}     // in fragments within the limit
	gotOver := map[string]int{} // in oversized fragments (to be dropped by the caller)
	var gotMsgs []string
	for i, f := range frags {
		els := vfRPCElements(f)
		if f.Size() == 0 {
			// weakest reading of "no empty RPC": a fragment that encodes to zero bytes.  Wrapper-only
			// fragments (an empty control message or an IHAVE topic without IDs) are wasteful but not empty.
			report("c11:empty-fragment", fmt.Sprintf("fragment %d of %d is an empty RPC (size 0)", i, len(frags)))
			continue
		}
		if len(els) == 0 {
			continue
		}
		over := f.Size() > limit
		if over && len(els) != 1 {
			report("c11:oversized-multi", fmt.Sprintf("fragment %d has size %d > limit %d but holds %d elements", i, f.Size(), limit, len(els)))
		}
		for _, e := range els {
			if over {
				gotOver[e.key]++
			} else {
				got[e.key]++
			}
			if e.isMsg {
				gotMsgs = append(gotMsgs, e.key)
			}
		}
	}
	for k, n := range wantCount {
		g, o := got[k], gotOver[k]
		kind := k[:strings.IndexByte(k+":", ':')]
		switch {
		case g+o > n:
			report("c11:duplicated:"+kind, fmt.Sprintf("element %s appears %d times in the fragments, %d in the original", vfShortKey(k), g+o, n))
		case alone[k] <= limit && g < n:
			if o > 0 {
				report("c11:fitting-element-oversized:"+kind, fmt.Sprintf("element %s fits by itself (%d <= %d) but only appears in an oversized fragment", vfShortKey(k), alone[k], limit))
			} else {
				report("c11:lost:"+kind, fmt.Sprintf("element %s fits by itself (%d <= limit %d) but is missing from the fragments", vfShortKey(k), alone[k], limit))
			}
		}
	}
	for k := range got {
		if wantCount[k] == 0 {
			report("c11:invented", "fragments contain an element that is not in the original: "+vfShortKey(k))
		}
	}
	for k := range gotOver {
		if wantCount[k] == 0 {
			report("c11:invented", "fragments contain an element that is not in the original: "+vfShortKey(k))
		}
	}
	// message order
	j := 0
	for _, k := range gotMsgs {
		for j < len(wantMsgs) && wantMsgs[j] != k {
			j++
		}
		if j == len(wantMsgs) {
			report("c11:message-order", "published messages are not yielded in their original order")
			break
		}
		j++
	}
	return len(frags) > 1
}

func vfShortKey(k string) string {
	if len(k) > 60 {
		return k[:60] + "..."
	}
	return k
}

func vfC11SplitOne(r *vfRun, shape vfC11Shape, limit int, judge bool) string {
	orig := vfC11Build(shape)
	var frags []*RPC
	for f := range orig.split(limit) {
		f := f
		frags = append(frags, &f)
	}
	c := vfC11Case{Part: "split", Shape: shape, Limit: limit}
	nt := vfC11Judge(vfC11Build(shape), frags, limit, func(fp, msg string) {
		if judge {
			r.violation(fp, fmt.Sprintf("split(limit=%d) of %+v: %s", limit, shape, msg), c)
		}
	})
	var sizes []string
	for _, f := range frags {
		sizes = append(sizes, fmt.Sprint(f.Size()))
	}
	if nt {
		r.nontrivial(fmt.Sprintf("%+v|%d", shape, limit))
	}
	return strings.Join(sizes, ",")
}

// ---- part 2: through sendRPC into a real queue

// vfDropRec is a raw tracer that records, at the moment of the callback, what an RPC reported as dropped holds.
type vfDropRec struct {
	drops []map[string]int
}

func (d *vfDropRec) DropRPC(rpc *RPC, p peer.ID) {
	m := map[string]int{}
	for _, e := range vfRPCElements(rpc) {
		m[e.key]++
	}
	d.drops = append(d.drops, m)
}
func (d *vfDropRec) OnNewOutboundStream(peer.ID, protocol.ID) {}
func (d *vfDropRec) OnClosedOutboundStream(peer.ID)           {}
func (d *vfDropRec) Join(string)                              {}
func (d *vfDropRec) Leave(string)                             {}
func (d *vfDropRec) Graft(peer.ID, string)                    {}
func (d *vfDropRec) Prune(peer.ID, string)                    {}
func (d *vfDropRec) ValidateMessage(*Message)                 {}
func (d *vfDropRec) DeliverMessage(*Message)                  {}
func (d *vfDropRec) RejectMessage(*Message, string)           {}
func (d *vfDropRec) DuplicateMessage(*Message)                {}
func (d *vfDropRec) ThrottlePeer(peer.ID)                     {}
func (d *vfDropRec) RecvRPC(*RPC)                             {}
func (d *vfDropRec) SendRPC(*RPC, peer.ID)                    {}
func (d *vfDropRec) UndeliverableMessage(*Message)            {}

func vfC11SendOne(r *vfRun, shape vfC11Shape, limit int, piggy bool, judge bool) (obs string) {
	c := vfC11Case{Part: "send", Shape: shape, Limit: limit, Piggy: piggy}
	p := vfBubble(r.t, func() {
		w := newVfWorld()
		rec := &vfDropRec{}
		n, err := vfNewNode(w, "N", "gossip", WithMessageSignaturePolicy(StrictNoSign), WithMaxMessageSize(limit), WithPeerOutboundQueueSize(256),
			WithGossipSubParams(vfGSParams("d2")), WithRawTracer(rec))
		if err != nil {
			panic(err)
		}
		f := newVfFake(w, "a", GossipSubID_v12)
		w.connect(f.ident.id, n.id(), "10.0.0.1", "10.0.0.2")
		synctest.Wait()
		f.mu.Lock()
		out := f.out
		f.mu.Unlock()
		if out == nil {
			panic("no outbound stream")
		}
		out.in.setGate(true)
		// park the writer inside a blocked write so that everything else stays queued
		filler := &RPC{RPC: pb.RPC{Subscriptions: []*pb.RPC_SubOpts{{Topicid: func() *string { s := "f"; return &s }()}}}}
		n.eval(func() { n.ps.peers[f.ident.id].Push(filler, false) })
		synctest.Wait()
		var queued []*RPC
		expected := vfC11Build(shape)
		if piggy {
			// what sendRPC piggybacks: a PRUNE kept for retry (for a topic without mesh it is not stale) and IHAVE gossip
			zz, bo := "zz", uint64(7)
			prune := &pb.ControlPrune{TopicID: &zz, Backoff: &bo}
			ihave := &pb.ControlIHave{TopicID: &zz, MessageIDs: []string{"piggy-id-1", "piggy-id-2"}}
			// (pending gossip REPLACES the IHAVEs of the outgoing RPC -- piggybackGossip assigns -- which is harmless
			// only because no caller of sendRPC passes IHAVEs while gossip is pending for the peer: flush() removes the
			// entry before sending it.  The harness therefore plants gossip only under RPCs without IHAVE.)
			withGossip := shape.Ihave == 0
			n.eval(func() {
				n.gs.control[f.ident.id] = &pb.ControlMessage{Prune: []*pb.ControlPrune{prune}}
				if withGossip {
					n.gs.gossip[f.ident.id] = []*pb.ControlIHave{ihave}
				}
			})
			if expected.Control == nil {
				expected.Control = &pb.ControlMessage{}
			}
			expected.Control.Prune = append(expected.Control.Prune, prune)
			if withGossip {
				expected.Control.Ihave = append(expected.Control.Ihave, ihave)
			}
		}
		n.eval(func() {
			n.gs.sendRPC(f.ident.id, vfC11Build(shape), false)
			q := n.ps.peers[f.ident.id]
			q.queueMu.Lock()
			queued = append(queued, q.queue.priority...)
			queued = append(queued, q.queue.normal...)
			q.queueMu.Unlock()
		})
		for i, qd := range queued {
			if qd.Size() > limit {
				if judge {
					r.violation("c11:queued-oversized", fmt.Sprintf("sendRPC(limit=%d) of %+v queued RPC %d of size %d for the wire", limit, shape, i, qd.Size()), c)
				}
			}
		}
		nt := vfC11Judge(expected, queued, limit, func(fp, msg string) {
			// through sendRPC oversized fragments are legitimately absent (dropped and reported)
			if strings.HasPrefix(fp, "c11:oversized-multi") {
				return
			}
			if judge {
				r.violation("send:"+fp, fmt.Sprintf("sendRPC(limit=%d) of %+v: %s", limit, shape, msg), c)
			}
		})
		// "(and reported as dropped)": whatever of the original is not queued must be in a drop report, as the report
		// stood when the tracer was called
		{
			have := map[string]int{}
			for _, qd := range queued {
				for _, e := range vfRPCElements(qd) {
					have[e.key]++
				}
			}
			for _, d := range rec.drops {
				for k, c := range d {
					have[k] += c
				}
			}
			wantCount := map[string]int{}
			for _, e := range vfRPCElements(expected) {
				wantCount[e.key]++
			}
			for k, n := range wantCount {
				if have[k] < n && judge {
					kind := k[:strings.IndexByte(k+":", ':')]
					r.violation("send:c11:dropped-unreported:"+kind, fmt.Sprintf("sendRPC(limit=%d) of %+v: element %s is neither queued nor in an RPC reported as dropped", limit, shape, vfShortKey(k)), c)
				}
			}
			if len(rec.drops) > 0 {
				r.count("sendrpc_cases_with_drop_reports", 1)
			}
		}
		if nt {
			r.nontrivial(fmt.Sprintf("send|%+v|%d", shape, limit))
		}
		var sizes []string
		for _, qd := range queued {
			sizes = append(sizes, fmt.Sprint(qd.Size()))
		}
		obs = strings.Join(sizes, ",")
		var pending string
		n.eval(func() {
			if ctl := n.gs.control[f.ident.id]; ctl != nil {
				pending = vfRenderRPC(vfCtlRPC(ctl), nil)
			}
		})
		obs += " retry=" + pending
		vfTeardown(w, n)
	})
	if p != "" && judge {
		r.violation("send:panic:"+vfPanicFingerprint(p), "panic: "+vfFirstLine(p), c)
	}
	return obs
}

func init() {
	vfRegister("C11", &vfCheck{
		run: func(r *vfRun) {
			shapes := vfC11Shapes(r.thorough)
			r.res.Bounds["shapes"] = len(shapes)
			r.res.Bounds["limits"] = "every integer 1..size+2 (split); size-40..size+2 step 1 and 1..60 (sendRPC, quick: sampled shapes)"
			sort.SliceStable(shapes, func(i, j int) bool { return false })
			for si, shape := range shapes {
				idx, ok := r.nextCase()
				_ = idx
				if !ok {
					continue
				}
				if r.outOfTime() {
					break
				}
				orig := vfC11Build(shape)
				size := orig.Size()
				r.mark(vfC11Case{Part: "split", Shape: shape})
				for limit := 1; limit <= size+2; limit++ {
					obs := vfC11SplitOne(r, shape, limit, true)
					r.res.Executions++
					if limit%16 == 0 || limit >= size {
						r.outcome(fmt.Sprintf("%d|%s", limit, obs))
					}
				}
				if si < 3 || len(r.res.Samples) < 2 {
					r.sample(vfC11Case{Part: "split", Shape: shape, Limit: size / 2})
				}
				// part 2 on a subset of shapes (every 7th in quick, every 2nd in thorough) and a band of limits
				stride := 23
				if r.thorough {
					stride = 5
				}
				if si%stride == 0 && size > 0 {
					var limits []int
					for _, l := range []int{size + 1, size, size - 1, size / 2, size / 3, 60, 40, 25} {
						if l > 5 {
							limits = append(limits, l)
						}
					}
					for _, limit := range limits {
						r.mark(vfC11Case{Part: "send", Shape: shape, Limit: limit})
						obs := vfC11SendOne(r, shape, limit, false, true)
						r.res.Executions++
						r.count("sendrpc_cases", 1)
						r.outcome(fmt.Sprintf("send|%d|%s", limit, obs))
					}
					// the same with control waiting to be piggybacked: the RPC grows inside sendRPC, so limits a few
					// bytes above its own size are the interesting ones
					for limit := size - 2; limit <= size+70; limit += 3 {
						if limit <= 5 {
							continue
						}
						r.mark(vfC11Case{Part: "send", Shape: shape, Limit: limit, Piggy: true})
						obs := vfC11SendOne(r, shape, limit, true, true)
						r.res.Executions++
						r.count("sendrpc_cases_with_piggybacked_control", 1)
						r.outcome(fmt.Sprintf("sendpiggy|%d|%s", limit, obs))
					}
				}
				r.unmark()
			}
		},
		replay: func(r *vfRun, raw json.RawMessage) {
			var c vfC11Case
			if err := json.Unmarshal(raw, &c); err != nil {
				r.harnessError("bad case: %v", err)
				return
			}
			if c.Part == "send" {
				fmt.Println(vfC11SendOne(r, c.Shape, c.Limit, c.Piggy, true))
			} else {
				fmt.Println(vfC11SplitOne(r, c.Shape, c.Limit, true))
			}
			r.res.Executions++
		},
	})
}
