package pubsub

// C03: only authentic messages are accepted under the configured signature policy.
//
// Inputs: messages honestly signed with four key types, tampered field by field
// (data, topic, from, seqno, key, signature, unknown-field bytes: keep / drop /
// empty / flip a bit / replace by the same field of another signed message /
// re-sign with a key that does not match the author), all <=2-field deviations
// (quick) or all <=3-field deviations (thorough), under the four signature
// policies crossed with author / no-author mode at the receiving node.  Each
// candidate is sent by a fake peer to a real node with a second fake peer
// subscribed, and "delivered or forwarded" is compared with an independent
// re-implementation of the rule.  Conversely the node's own publications (default
// author, custom author, per-publish key, no author) must verify under that rule.

import (
	"bytes"
	"context"
	"crypto/rand"
	"crypto/sha256"
	"encoding/json"
	"fmt"
	"strings"
	"testing/synctest"

	pb "github.com/libp2p/go-libp2p-pubsub/pb"
	"github.com/libp2p/go-libp2p/core/crypto"
	"github.com/libp2p/go-libp2p/core/peer"
)

type vfKeyed struct {
	name string
	priv crypto.PrivKey
	id   peer.ID
}

var vfC03Keys []*vfKeyed

func vfC03KeySet() []*vfKeyed {
	if vfC03Keys != nil {
		return vfC03Keys
	}
	mk := func(name string, typ, bits int) *vfKeyed {
		priv, _, err := crypto.GenerateKeyPairWithReader(typ, bits, rand.Reader)
		if err != nil {
			panic(err)
		}
		id, err := peer.IDFromPrivateKey(priv)
		if err != nil {
			panic(err)
		}
		return &vfKeyed{name: name, priv: priv, id: id}
	}
	ed := vfIdentity("author-ed25519")
	vfC03Keys = []*vfKeyed{
		{name: "ed25519", priv: ed.priv, id: ed.id},
		mk("secp256k1", crypto.Secp256k1, 0),
		mk("rsa", crypto.RSA, 2048),
		mk("ecdsa", crypto.ECDSA, 0),
	}
	return vfC03Keys
}

// ---- independent re-implementation of the verification rule

func vfPBBytes(out *bytes.Buffer, tag byte, b []byte) {
	out.WriteByte(tag)
	n := uint64(len(b))
	for n >= 0x80 {
		out.WriteByte(byte(n) | 0x80)
		n >>= 7
	}
	out.WriteByte(byte(n))
	out.Write(b)
}

// vfOracleVerify: does the signature verify over the contents with the pubsub
// prefix under the key bound to the claimed author?
func vfOracleVerify(m *pb.Message) bool {
	if m.Signature == nil {
		return false
	}
	var pub crypto.PubKey
	from := peer.ID(m.From)
	if err := from.Validate(); err != nil {
		return false
	}
	if _, err := peer.IDFromBytes(m.From); err != nil {
		return false
	}
	if m.Key != nil {
		k, err := crypto.UnmarshalPublicKey(m.Key)
		if err != nil {
			return false
		}
		want, err := peer.IDFromPublicKey(k)
		if err != nil || want != from {
			return false
		}
		pub = k
	} else {
		k, err := from.ExtractPublicKey()
		if err != nil || k == nil {
			return false
		}
		pub = k
	}
	var buf bytes.Buffer
	buf.WriteString("libp2p-pubsub:")
	if m.From != nil {
		vfPBBytes(&buf, 0x0a, m.From)
	}
	if m.Data != nil {
		vfPBBytes(&buf, 0x12, m.Data)
	}
	if m.Seqno != nil {
		vfPBBytes(&buf, 0x1a, m.Seqno)
	}
	if m.Topic != nil {
		vfPBBytes(&buf, 0x22, []byte(*m.Topic))
	}
	buf.Write(m.XXX_unrecognized)
	ok, err := pub.Verify(buf.Bytes(), m.Signature)
	return err == nil && ok
}

// vfOracleAccepts: may a node with this policy deliver / forward the message?
func vfOracleAccepts(m *pb.Message, policy MessageSignaturePolicy, anonymous bool, self peer.ID) (bool, string) {
	if peer.ID(m.From) == self {
		return false, "names the local node as author"
	}
	switch policy {
	case StrictSign:
		if m.Signature == nil {
			return false, "strict signing: no signature"
		}
		if !vfOracleVerify(m) {
			return false, "signature does not verify"
		}
	case StrictNoSign:
		if m.Signature != nil {
			return false, "strict no-sign: carries a signature"
		}
		if anonymous && (m.From != nil || m.Seqno != nil || m.Key != nil) {
			return false, "anonymous mode: carries author / seqno / key"
		}
	default: // lax policies
		if m.Signature != nil && !vfOracleVerify(m) {
			return false, "carries a signature that does not verify"
		}
	}
	return true, ""
}

// ---- candidates

type vfC03Case struct {
	Policy    int      `json:"policy"`
	Anonymous bool     `json:"anonymous"`
	Base      string   `json:"base"`
	Mut       []string `json:"mut"`                 // "field=op"
	Congested bool     `json:"congested,omitempty"` // the validation pipeline is full while the candidate arrives
	ByAuthor  bool     `json:"by_author,omitempty"` // the candidate arrives over the connection of the peer it names as author
}

var vfC03Fields = []string{"data", "topic", "from", "seqno", "key", "sig", "unknown"}
var vfC03Ops = []string{"drop", "empty", "flip", "swap", "resign", "foreign"}

func vfC03Honest(k *vfKeyed, topic string, seq byte, sign bool) *pb.Message {
	m := &pb.Message{Data: []byte("payload-" + k.name), Topic: &topic, From: []byte(k.id), Seqno: []byte{0, 0, 0, 0, 0, 0, 0, seq}}
	if sign {
		if err := signMessage(k.id, k.priv, m); err != nil {
			panic(err)
		}
	}
	return m
}

func vfFlip(b []byte) []byte {
	if len(b) == 0 {
		return []byte{1}
	}
	o := append([]byte{}, b...)
	o[len(o)/2] ^= 0x04
	return o
}

// vfC03Mutate applies "field=op" to a copy of m; other is the donor of swapped fields.
func vfC03Mutate(m, other *pb.Message, wrongKey crypto.PrivKey, muts []string) *pb.Message {
	c := &pb.Message{}
	b, _ := m.Marshal()
	c.Unmarshal(b)
	resign := false
	for _, mu := range muts {
		field, op, _ := strings.Cut(mu, "=")
		get := func(x *pb.Message) []byte {
			switch field {
			case "data":
				return x.Data
			case "from":
				return x.From
			case "seqno":
				return x.Seqno
			case "key":
				return x.Key
			case "sig":
				return x.Signature
			case "unknown":
				return x.XXX_unrecognized
			case "topic":
				if x.Topic == nil {
					return nil
				}
				return []byte(*x.Topic)
			}
			return nil
		}
		set := func(v []byte) {
			switch field {
			case "data":
				c.Data = v
			case "from":
				c.From = v
			case "seqno":
				c.Seqno = v
			case "key":
				c.Key = v
			case "sig":
				c.Signature = v
			case "unknown":
				c.XXX_unrecognized = v
			case "topic":
				if v == nil {
					c.Topic = nil
				} else {
					s := string(v)
					c.Topic = &s
				}
			}
		}
		switch op {
		case "drop":
			set(nil)
		case "empty":
			set([]byte{})
		case "flip":
			if field == "unknown" {
				set([]byte{0x7a, 0x02, 0xab, 0xcd}) // an unknown length-delimited field (number 15)
			} else if field == "topic" {
				set([]byte("u"))
			} else {
				set(vfFlip(get(c)))
			}
		case "swap":
			if field == "unknown" {
				set([]byte{0x78, 0x05}) // an unknown varint field
			} else {
				set(get(other))
			}
		case "resign":
			resign = true
		case "foreign":
			// attach the public key of the foreign signer (the one "resign" uses)
			kb, err := crypto.MarshalPublicKey(wrongKey.GetPublic())
			if err != nil {
				panic(err)
			}
			set(kb)
		}
	}
	if resign {
		// sign the (tampered) contents with a key that does not belong to the claimed author
		c.Signature = nil
		savedKey := c.Key
		c.Key = nil
		bs, _ := c.Marshal()
		sig, err := wrongKey.Sign(append([]byte(SignPrefix), bs...))
		if err != nil {
			panic(err)
		}
		c.Signature = sig
		c.Key = savedKey
	}
	return c
}

func vfC03Mutations(maxFields int) [][]string {
	var single []string
	for _, f := range vfC03Fields {
		for _, op := range vfC03Ops {
			if op == "resign" && f != "sig" {
				continue
			}
			if op == "foreign" && f != "key" {
				continue
			}
			single = append(single, f+"="+op)
		}
	}
	out := [][]string{nil}
	var rec func(start int, cur []string)
	rec = func(start int, cur []string) {
		if len(cur) > 0 {
			out = append(out, append([]string{}, cur...))
		}
		if len(cur) == maxFields {
			return
		}
		for i := start; i < len(single); i++ {
			f, _, _ := strings.Cut(single[i], "=")
			dup := false
			for _, c := range cur {
				if strings.HasPrefix(c, f+"=") {
					dup = true
				}
			}
			if !dup {
				rec(i+1, append(cur, single[i]))
			}
		}
	}
	rec(0, nil)
	return out
}

type vfC03Node struct {
	w      *vfWorld
	n      *vfNode
	a, b   *vfFake
	subT   *Subscription
	subU   *Subscription
	policy MessageSignaturePolicy
	anon   bool
}

// vfC03Sender: when set, the identity of the peer that delivers the candidates (see vfC03ByAuthor).
var vfC03Sender *vfKeyed

func vfC03NewNode(policy MessageSignaturePolicy, anon bool, extra ...Option) *vfC03Node {
	w := newVfWorld()
	opts := []Option{WithMessageSignaturePolicy(policy), WithMessageIdFn(func(m *pb.Message) string {
		b, _ := m.Marshal()
		h := sha256.Sum256(b)
		return string(h[:])
	})}
	if anon {
		opts = append(opts, WithNoAuthor())
	}
	opts = append(opts, extra...)
	n, err := vfNewNode(w, "N", "flood", opts...)
	if err != nil {
		panic(err)
	}
	c := &vfC03Node{w: w, n: n, policy: policy, anon: anon}
	sender := "a"
	if vfC03Sender != nil {
		// the sending peer IS the author key's peer (the stub network needs no handshake, any identity will do)
		sender = "author-" + vfC03Sender.name
		vfIdentMu.Lock()
		id := &vfIdent{id: vfC03Sender.id, priv: vfC03Sender.priv, name: sender}
		vfIdentCache[sender] = id
		vfIdentByID[vfC03Sender.id] = id
		vfIdentMu.Unlock()
	}
	c.a, c.b = newVfFake(w, sender, FloodSubID), newVfFake(w, "b", FloodSubID)
	for _, f := range []*vfFake{c.a, c.b} {
		w.connect(f.ident.id, n.id(), "10.0.0.1", "10.0.0.2")
		synctest.Wait()
		f.openInbound(n.h, FloodSubID)
	}
	c.subT, _ = n.ps.Subscribe("t", WithBufferSize(4))
	c.subU, _ = n.ps.Subscribe("u", WithBufferSize(4))
	c.b.send(&RPC{RPC: pb.RPC{Subscriptions: []*pb.RPC_SubOpts{{Topicid: vfStrp("t"), Subscribe: vfBoolp(true)}, {Topicid: vfStrp("u"), Subscribe: vfBoolp(true)}}}})
	synctest.Wait()
	c.b.take()
	return c
}

func vfStrp(s string) *string { return &s }
func vfBoolp(b bool) *bool    { return &b }

// feed sends one candidate from a and reports whether it was delivered / forwarded.
func (c *vfC03Node) feed(m *pb.Message) (delivered, forwarded bool) {
	c.a.send(vfPubRPC(m))
	synctest.Wait()
	for _, s := range []*Subscription{c.subT, c.subU} {
		for {
			select {
			case <-s.ch:
				delivered = true
				continue
			default:
			}
			break
		}
	}
	for _, r := range c.b.take() {
		if r.rpc != nil && len(r.rpc.GetPublish()) > 0 {
			forwarded = true
		}
	}
	return
}

func vfC03Policies() []MessageSignaturePolicy {
	return []MessageSignaturePolicy{StrictSign, StrictNoSign, LaxSign, LaxNoSign}
}

// vfC03Congested: the group runs against a node whose validation pipeline is full (set around a call of RunGroup).
var vfC03Congested bool

// vfC03ByAuthor: the candidates of the group are delivered by the very peer whose key signed the base message (the
// first hop of an honest message looks like this; a forgery sent by its claimed author must fare no better than one
// relayed by a third party).
var vfC03ByAuthor bool

func vfC03RunGroup(r *vfRun, policy MessageSignaturePolicy, anon bool, base string, muts [][]string) {
	keys := vfC03KeySet()
	var k *vfKeyed
	signed := !strings.HasSuffix(base, "-unsigned")
	for _, x := range keys {
		if strings.HasPrefix(base, x.name) {
			k = x
		}
	}
	p := vfBubble(r.t, func() {
		var node *vfC03Node
		vfC03Sender = nil
		if vfC03ByAuthor {
			vfC03Sender = k
			r.count("groups_delivered_by_the_claimed_author", 1)
		}
		defer func() { vfC03Sender = nil }()
		if vfC03Congested {
			// one validation worker parked in a validator of topic "u" and a queue of one, already taken: whatever
			// arrives now finds the pipeline full (and must be dropped, never waved through unverified)
			park := make(chan struct{})
			defer close(park)
			node = vfC03NewNode(policy, anon, WithValidateQueueSize(1))
			if err := node.n.ps.RegisterTopicValidator("u", func(ctx context.Context, _ peer.ID, _ *Message) ValidationResult {
				select {
				case <-park:
				case <-ctx.Done():
				}
				return ValidationIgnore
			}, WithValidatorInline(true)); err != nil {
				panic(err)
			}
			for i := 0; i < 2; i++ {
				filler := vfC03Honest(keys[0], "u", byte(100+i), policy&msgSigning != 0 || policy == LaxNoSign)
				if anon {
					filler = &pb.Message{Data: []byte(fmt.Sprintf("filler-%d", i)), Topic: vfStrp("u")}
				}
				node.b.send(vfPubRPC(filler))
				synctest.Wait()
			}
			r.count("groups_with_a_full_validation_pipeline", 1)
		} else {
			node = vfC03NewNode(policy, anon)
		}
		honest := vfC03Honest(k, "t", 1, signed)
		other := vfC03Honest(keys[(indexOfKey(keys, k)+1)%len(keys)], "u", 2, true)
		wrong := keys[(indexOfKey(keys, k)+2)%len(keys)].priv
		self := node.n.id()
		sent := map[string]bool{}
		for _, mu := range muts {
			cand := vfC03Mutate(honest, other, wrong, mu)
			if cb, _ := cand.Marshal(); sent[string(cb)] {
				r.count("tamperings_identical_to_an_earlier_candidate", 1)
				continue // same bytes as an earlier candidate: the node would (rightly) treat it as a duplicate
			} else {
				sent[string(cb)] = true
			}
			// what the node sees is the wire round trip of the candidate
			wire := &pb.Message{}
			bs, _ := cand.Marshal()
			if err := wire.Unmarshal(bs); err != nil {
				continue
			}
			if wire.Topic == nil || (wire.GetTopic() != "t" && wire.GetTopic() != "u") {
				r.res.Executions++
				continue // not a topic the node follows: never looked at
			}
			cs := vfC03Case{Policy: int(policy), Anonymous: anon, Base: base, Mut: mu, Congested: vfC03Congested, ByAuthor: vfC03ByAuthor}
			r.mark(cs)
			d, f := node.feed(cand)
			r.res.Executions++
			ok, why := vfOracleAccepts(wire, policy, anon, self)
			r.outcome(fmt.Sprintf("%d/%v/%s/%v => d=%v f=%v oracle=%v", policy, anon, base, mu, d, f, ok))
			if (d || f) && !ok {
				r.violation("c03:accepted-inauthentic:"+strings.SplitN(why, ":", 2)[0], fmt.Sprintf("policy=%d anonymous=%v base=%s tampering=%v: message was delivered=%v forwarded=%v but %s", policy, anon, base, mu, d, f, why), cs)
			}
			if len(mu) == 0 && ok && !d && !vfC03Congested {
				r.violation("c03:honest-rejected", fmt.Sprintf("policy=%d anonymous=%v base=%s: an untampered message the policy admits was not delivered", policy, anon, base), cs)
			}
			if ok != (d || f) {
				r.count("oracle_accepts_but_node_drops", 1)
				if r.res.Counters["oracle_accepts_but_node_drops"] <= 6 {
					r.note("oracle accepts, node drops: policy=%d anon=%v base=%s mut=%v", policy, anon, base, mu)
				}
			}
			if d || f {
				r.count("accepted", 1)
				r.nontrivial(fmt.Sprintf("%d/%v/%s/%v", policy, anon, base, mu))
			} else {
				r.count("rejected", 1)
				if wire.Signature != nil || policy != StrictSign {
					r.nontrivial(fmt.Sprintf("%d/%v/%s/%v", policy, anon, base, mu))
				}
			}
		}
		// a message naming the local node as author, validly signed by the node's own key
		selfMsg := &pb.Message{Data: []byte("x"), Topic: vfStrp("t"), From: []byte(self), Seqno: []byte{0, 0, 0, 0, 0, 0, 0, 9}}
		if policy&msgSigning != 0 || policy == LaxNoSign {
			signMessage(self, vfIdentity("N").priv, selfMsg)
		}
		if d, f := node.feed(selfMsg); d || f {
			r.violation("c03:self-origin-accepted", fmt.Sprintf("policy=%d: a message naming the local node as author arrived from another peer and was delivered=%v forwarded=%v", policy, d, f), vfC03Case{Policy: int(policy), Anonymous: anon, Base: "self"})
		}
		r.unmark()
		vfTeardown(node.w, node.n)
		// the same probe against a node that publishes under a custom author (possible without a key when the
		// policy does not sign): "the local node" is still the host's own ID
		if !anon && policy&msgSigning == 0 {
			node2 := vfC03NewNode(policy, false, WithMessageAuthor(keys[0].id))
			self2 := node2.n.id()
			m := &pb.Message{Data: []byte("y"), Topic: vfStrp("t"), From: []byte(self2), Seqno: []byte{0, 0, 0, 0, 0, 0, 0, 10}}
			if policy == LaxNoSign {
				signMessage(self2, vfIdentity("N").priv, m)
			}
			if d, f := node2.feed(m); d || f {
				r.violation("c03:self-origin-accepted", fmt.Sprintf("policy=%d, custom message author: a message naming the local node as author arrived from another peer and was delivered=%v forwarded=%v", policy, d, f), vfC03Case{Policy: int(policy), Anonymous: anon, Base: "self"})
			}
			r.count("self_origin_probes_custom_author", 1)
			vfTeardown(node2.w, node2.n)
		}
	})
	if p != "" {
		r.violation("panic:"+vfPanicFingerprint(p), "panic: "+vfFirstLine(p), vfC03Case{Policy: int(policy), Anonymous: anon, Base: base})
	}
}

func indexOfKey(keys []*vfKeyed, k *vfKeyed) int {
	for i, x := range keys {
		if x == k {
			return i
		}
	}
	return 0
}

// vfC03Publishes: what the node publishes itself verifies at a correct receiver.
func vfC03Publishes(r *vfRun) {
	keys := vfC03KeySet()
	type pm struct {
		policy MessageSignaturePolicy
		anon   bool
	}
	// (a node that does not sign can still be handed a key per publication, and then produces a signed message:
	// under a strict no-signing policy its own receivers would refuse that, so the publication has to be refused)
	for _, pa := range []pm{{StrictSign, false}, {LaxSign, false}, {StrictNoSign, false}, {StrictNoSign, true}, {LaxNoSign, false}, {LaxNoSign, true}} {
		for _, mode := range []string{"default", "custom-ed25519", "custom-rsa", "perpublish-secp256k1", "perpublish-ecdsa", "perpublish-mismatch"} {
			policy, anon, mode := pa.policy, pa.anon, mode
			if anon && strings.HasPrefix(mode, "custom-") {
				continue // WithNoAuthor and WithMessageAuthor exclude each other
			}
			p := vfBubble(r.t, func() {
				w := newVfWorld()
				opts := []Option{WithMessageSignaturePolicy(policy)}
				if anon {
					opts = append(opts, WithNoAuthor())
				}
				var custom *vfKeyed
				if strings.HasPrefix(mode, "custom-") {
					for _, k := range keys {
						if k.name == mode[7:] {
							custom = k
						}
					}
					vfIdentMu.Lock()
					vfIdentByID[custom.id] = &vfIdent{id: custom.id, priv: custom.priv, name: "custom"}
					vfIdentMu.Unlock()
					opts = append(opts, WithMessageAuthor(custom.id))
				}
				n, err := vfNewNode(w, "N", "flood", opts...)
				if err != nil {
					panic(err)
				}
				f := newVfFake(w, "a", FloodSubID)
				w.connect(f.ident.id, n.id(), "10.0.0.1", "10.0.0.2")
				synctest.Wait()
				f.openInbound(n.h, FloodSubID)
				f.send(vfSubRPC("t", true))
				synctest.Wait()
				tp, _ := n.ps.Join("t")
				var popts []PubOpt
				if mode == "perpublish-mismatch" {
					// a per-publication key with a peer ID it does not belong to: whatever Publish answers, nothing that
					// fails to verify may reach the wire or the local subscription (the unchanged tree refuses it)
					var kp, ki *vfKeyed
					for _, k := range keys {
						if k.name == "secp256k1" {
							kp = k
						}
						if k.name == "ed25519" {
							ki = k
						}
					}
					popts = append(popts, WithSecretKeyAndPeerId(kp.priv, ki.id))
				} else if strings.HasPrefix(mode, "perpublish-") {
					for _, k := range keys {
						if k.name == mode[11:] {
							popts = append(popts, WithSecretKeyAndPeerId(k.priv, k.id))
						}
					}
				}
				sub, err := tp.Subscribe()
				if err != nil {
					panic(err)
				}
				synctest.Wait()
				f.take()
				cs := map[string]any{"policy": policy, "anonymous": anon, "mode": mode}
				pubErr := tp.Publish(context.Background(), []byte("hello"), popts...)
				if pubErr != nil && policy&msgSigning != 0 && mode != "perpublish-mismatch" {
					r.violation("c03:publish-error", fmt.Sprintf("policy=%d mode=%s: Publish failed: %v", policy, mode, pubErr), cs)
				}
				synctest.Wait()
				// the receivers' rule: a signing publisher is judged by a strict-signing receiver, a non-signing one by
				// a receiver of its own policy and author mode
				rpol, ranon := StrictSign, false
				if policy&msgSigning == 0 {
					rpol, ranon = policy, anon
				}
				got := 0
				judge := func(m *pb.Message, where string) {
					if ok, why := vfOracleAccepts(m, rpol, ranon, f.ident.id); !ok {
						r.violation("c03:own-message-does-not-verify", fmt.Sprintf("policy=%d anonymous=%v mode=%s: the node's own publication (%s) does not verify at a correct receiver of policy %d: %s", policy, anon, mode, where, rpol, why), cs)
					}
				}
				for _, rc := range f.take() {
					for _, m := range rc.rpc.GetPublish() {
						got++
						judge(m, "on the wire")
					}
				}
				local := 0
				for {
					select {
					case m := <-sub.ch:
						local++
						judge(m.Message, "delivered locally")
						continue
					default:
					}
					break
				}
				want := 1
				if pubErr != nil {
					want = 0 // refused publications leave no trace on the wire or at the subscription
				}
				if got != want || local != want {
					r.violation("c03:own-message-missing", fmt.Sprintf("policy=%d anonymous=%v mode=%s: Publish returned %v; expected %d publication(s) on the wire and at the local subscription, saw %d and %d", policy, anon, mode, pubErr, want, got, local), cs)
				}
				if pubErr != nil {
					r.count("own_publications_refused", 1)
				}
				r.res.Executions++
				r.count("own_publications_verified", 1)
				vfTeardown(w, n)
			})
			if p != "" {
				r.violation("panic:"+vfPanicFingerprint(p), "panic: "+vfFirstLine(p), map[string]any{"policy": policy, "anonymous": anon, "mode": mode})
			}
		}
	}
}

func init() {
	vfRegister("C03", &vfCheck{
		run: func(r *vfRun) {
			maxF := 3
			if r.thorough {
				maxF = 4
			}
			muts := vfC03Mutations(maxF)
			r.res.Bounds["tamperings_per_base"] = len(muts)
			r.res.Bounds["max_fields_tampered"] = maxF
			var bases []string
			for _, k := range vfC03KeySet() {
				bases = append(bases, k.name, k.name+"-unsigned")
			}
			for _, policy := range vfC03Policies() {
				for _, anon := range []bool{false, true} {
					if anon && policy&msgSigning != 0 {
						continue // WithNoAuthor switches signing off
					}
					for _, base := range bases {
						if _, ok := r.nextCase(); !ok {
							continue
						}
						if r.outOfTime() {
							return
						}
						vfC03RunGroup(r, policy, anon, base, muts)
						// the same candidates arriving from the peer they name as author
						vfC03ByAuthor = true
						vfC03RunGroup(r, policy, anon, base, muts)
						vfC03ByAuthor = false
						if base == bases[0] {
							// the same candidates against a node whose validation pipeline is full
							vfC03Congested = true
							vfC03RunGroup(r, policy, anon, base, muts)
							vfC03Congested = false
						}
						if len(r.res.Samples) < 3 {
							r.sample(vfC03Case{Policy: int(policy), Anonymous: anon, Base: base, Mut: muts[len(muts)/2]})
						}
					}
				}
			}
			if _, ok := r.nextCase(); ok {
				vfC03Publishes(r)
			}
		},
		replay: func(r *vfRun, raw json.RawMessage) {
			var c vfC03Case
			if err := json.Unmarshal(raw, &c); err != nil {
				r.harnessError("bad case: %v", err)
				return
			}
			if c.Base == "self" {
				// the self-origin probe runs at the end of every group: replay the group of this policy / mode
				vfC03RunGroup(r, MessageSignaturePolicy(c.Policy), c.Anonymous, "ed25519", [][]string{nil})
				return
			}
			if c.Base == "" {
				vfC03Publishes(r)
				for _, p := range vfC03Policies() {
					vfC03RunGroup(r, p, false, "ed25519", [][]string{nil})
				}
				return
			}
			vfC03Congested, vfC03ByAuthor = c.Congested, c.ByAuthor
			vfC03RunGroup(r, MessageSignaturePolicy(c.Policy), c.Anonymous, c.Base, [][]string{c.Mut})
			vfC03Congested, vfC03ByAuthor = false, false
		},
	})
}
