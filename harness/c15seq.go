package pubsub

// C15 (sequential part): the real rpcQueue against a reference model, for every
// sequence of operations issued one at a time, each run to quiescence inside a
// synctest bubble.  Blocking operations are issued from their own goroutine
// and may stay pending; a pending operation is part of the state, so "data
// arrives while a pop waits", "close while a push waits", "cancel while a pop
// waits" are all explored.

import (
	"context"
	"encoding/json"
	"fmt"
	"sort"
	"strings"
	"testing/synctest"

	"github.com/libp2p/go-libp2p/core/peer"
)

type vfQPending struct {
	kind    string // "pop1" "pop2" "bpush:a" "bupush:a"
	done    chan string
	payload string
}

type vfQInst struct {
	x       *vfExec
	q       *rpcQueue
	cap     int
	ctx     [2]context.Context
	cancel  [2]context.CancelFunc
	pending []*vfQPending
	// reference model
	mNormal, mPrio []string
	mClosed        bool
	mCancelled     [2]bool
	ops            int
}

func vfQNew(x *vfExec, capacity int) *vfQInst {
	in := &vfQInst{x: x, q: newRpcQueue(capacity), cap: capacity}
	for i := range in.ctx {
		in.ctx[i], in.cancel[i] = context.WithCancel(context.Background())
	}
	return in
}

func (in *vfQInst) Enabled() []string {
	evs := []string{"push:a", "push:b", "upush:a", "upush:b", "bpush:c", "bupush:c", "pop1", "pop2", "close"}
	for i := 0; i < 2; i++ {
		if !in.mCancelled[i] {
			evs = append(evs, fmt.Sprintf("cancel%d", i+1))
		}
	}
	// keep the number of simultaneously pending calls small
	if len(in.pending) >= 3 {
		var f []string
		for _, e := range evs {
			if strings.HasPrefix(e, "pop") || strings.HasPrefix(e, "bp") || strings.HasPrefix(e, "bu") {
				continue
			}
			f = append(f, e)
		}
		evs = f
	}
	return evs
}

func vfQErrName(err error) string {
	switch err {
	case nil:
		return "ok"
	case ErrQueueCancelled:
		return "cancelled"
	case ErrQueueClosed:
		return "closed"
	case ErrQueueFull:
		return "full"
	case ErrQueuePushOnClosed:
		return "push-on-closed"
	}
	return "err:" + err.Error()
}

func (in *vfQInst) doPush(payload string, urgent, block bool) (res string) {
	defer func() {
		if e := recover(); e != nil {
			if err, ok := e.(error); ok {
				res = "panic:" + vfQErrName(err)
			} else {
				res = fmt.Sprint("panic:", e)
			}
		}
	}()
	rpc := &RPC{from: peer.ID(payload)}
	var err error
	if urgent {
		err = in.q.UrgentPush(rpc, block)
	} else {
		err = in.q.Push(rpc, block)
	}
	return vfQErrName(err)
}

func (in *vfQInst) doPop(i int) string {
	rpc, err := in.q.Pop(in.ctx[i])
	if err != nil {
		return vfQErrName(err)
	}
	if rpc == nil {
		return "nil"
	}
	return "item:" + string(rpc.from)
}

func (in *vfQInst) mLen() int { return len(in.mNormal) + len(in.mPrio) }

func (in *vfQInst) mPop() string {
	if len(in.mPrio) > 0 {
		v := in.mPrio[0]
		in.mPrio = in.mPrio[1:]
		return v
	}
	v := in.mNormal[0]
	in.mNormal = in.mNormal[1:]
	return v
}

// collect gathers the results of pending calls that completed during the step.
func (in *vfQInst) collect() map[*vfQPending]string {
	out := map[*vfQPending]string{}
	var still []*vfQPending
	for _, p := range in.pending {
		select {
		case r := <-p.done:
			out[p] = r
		default:
			still = append(still, p)
		}
	}
	in.pending = still
	return out
}

func (in *vfQInst) Apply(ev string, judge bool) string {
	in.ops++
	bad := func(format string, a ...any) {
		kind := strings.SplitN(ev, ":", 2)[0]
		in.x.violation("c15seq:"+kind+":"+fmt.Sprintf(strings.SplitN(format, " ", 2)[0]), fmt.Sprintf("cap=%d after %s: ", in.cap, ev)+fmt.Sprintf(format, a...))
	}
	before := append([]*vfQPending{}, in.pending...)
	var self *vfQPending
	name, arg, _ := strings.Cut(ev, ":")
	switch name {
	case "push", "upush":
		res := in.doPush(arg, name == "upush", false)
		synctest.Wait()
		want := "ok"
		if in.mClosed {
			want = "panic:push-on-closed"
		} else if in.mLen() >= in.cap {
			want = "full"
		} else if name == "upush" {
			in.mPrio = append(in.mPrio, arg)
		} else {
			in.mNormal = append(in.mNormal, arg)
		}
		if res != want {
			bad("result %s, reference says %s", res, want)
		}
	case "bpush", "bupush":
		self = &vfQPending{kind: ev, done: make(chan string, 1), payload: arg}
		in.pending = append(in.pending, self)
		go func(p *vfQPending) { p.done <- in.doPush(arg, name == "bupush", true) }(self)
		synctest.Wait()
	case "pop1", "pop2":
		i := int(name[3] - '1')
		self = &vfQPending{kind: ev, done: make(chan string, 1)}
		in.pending = append(in.pending, self)
		go func(p *vfQPending) { p.done <- in.doPop(i) }(self)
		synctest.Wait()
	case "cancel1", "cancel2":
		i := int(name[6] - '1')
		in.cancel[i]()
		in.mCancelled[i] = true
		synctest.Wait()
	case "close":
		in.q.Close()
		in.mClosed = true
		synctest.Wait()
	}
	done := in.collect()
	// Reference semantics at quiescence.  Pending calls that may complete:
	// resolve them against the model in a fixpoint, letting the model follow
	// whichever eligible waiter the implementation chose.
	obs := []string{}
	expectDone := map[*vfQPending]string{}
	all := append(append([]*vfQPending{}, before...), nilIf(self)...)
	for changed := true; changed; {
		changed = false
		for _, p := range all {
			if _, ok := expectDone[p]; ok {
				continue
			}
			switch {
			case strings.HasPrefix(p.kind, "pop"):
				i := int(p.kind[3] - '1')
				if in.mClosed {
					// a pop that found data before the close was observed would have
					// returned already in an earlier step; at quiescence closed wins
					expectDone[p] = "closed"
					changed = true
				} else if in.mLen() > 0 {
					// some waiting pop takes the head; prefer the one that actually returned an item
					if r, ok := done[p]; ok && strings.HasPrefix(r, "item:") {
						expectDone[p] = "item:" + in.mPop()
						changed = true
					} else if !vfAnyItem(done, all, expectDone) {
						// nobody claimed it although data is available and a pop waits
						if in.mCancelled[i] {
							expectDone[p] = "cancelled"
						} else {
							expectDone[p] = "item:" + in.mPop()
						}
						changed = true
					}
				} else if in.mCancelled[i] {
					expectDone[p] = "cancelled"
					changed = true
				}
			default: // blocking push
				if in.mClosed {
					expectDone[p] = "panic:push-on-closed"
					changed = true
				} else if in.mLen() < in.cap {
					if strings.HasPrefix(p.kind, "bupush") {
						in.mPrio = append(in.mPrio, p.payload)
					} else {
						in.mNormal = append(in.mNormal, p.payload)
					}
					expectDone[p] = "ok"
					changed = true
				}
			}
		}
	}
	for _, p := range all {
		got, isDone := done[p]
		want, shouldBeDone := expectDone[p]
		switch {
		case isDone && !shouldBeDone:
			bad("unexpected-return pending %s returned %s but the reference keeps it blocked", p.kind, got)
		case !isDone && shouldBeDone:
			bad("stuck pending %s is still blocked at quiescence; reference says it returns %s", p.kind, want)
			// keep the model consistent with the implementation: nothing to undo for
			// pops (we consumed from the model) -- the execution is already a violation
		case isDone && got != want:
			// a cancelled pop on a non-empty queue may legitimately take the item
			bad("wrong-result pending %s returned %s, reference says %s", p.kind, got, want)
		}
		if isDone {
			obs = append(obs, p.kind+"="+got)
		}
	}
	sort.Strings(obs)
	// structural comparison of the real queue with the model
	in.q.queueMu.Lock()
	gotN, gotP := vfQTags(in.q.queue.normal), vfQTags(in.q.queue.priority)
	gotClosed, gotLen := in.q.closed, in.q.queue.Len()
	in.q.queueMu.Unlock()
	if gotLen > in.cap {
		bad("over-capacity queue holds %d > capacity %d", gotLen, in.cap)
	}
	if gotN != strings.Join(in.mNormal, ",") || gotP != strings.Join(in.mPrio, ",") || gotClosed != in.mClosed {
		bad("contents real queue normal=[%s] prio=[%s] closed=%v, reference normal=%v prio=%v closed=%v", gotN, gotP, gotClosed, in.mNormal, in.mPrio, in.mClosed)
		// resynchronise the model so that one divergence is reported once
		in.mNormal, in.mPrio, in.mClosed = vfSplit(gotN), vfSplit(gotP), gotClosed
	}
	if len(in.pending) > 0 {
		in.x.r.count("steps_with_pending_calls", 1)
	}
	return strings.Join(obs, " ")
}

func nilIf(p *vfQPending) []*vfQPending {
	if p == nil {
		return nil
	}
	return []*vfQPending{p}
}

func vfAnyItem(done map[*vfQPending]string, all []*vfQPending, claimed map[*vfQPending]string) bool {
	for _, p := range all {
		if _, ok := claimed[p]; ok {
			continue
		}
		if r, ok := done[p]; ok && strings.HasPrefix(r, "item:") {
			return true
		}
	}
	return false
}

func vfSplit(s string) []string {
	if s == "" {
		return nil
	}
	return strings.Split(s, ",")
}

func vfQTags(l []*RPC) string {
	var s []string
	for _, r := range l {
		if r == nil {
			s = append(s, "<nil>")
		} else {
			s = append(s, string(r.from))
		}
	}
	return strings.Join(s, ",")
}

func (in *vfQInst) Canon() string {
	var pend []string
	for _, p := range in.pending {
		pend = append(pend, p.kind)
	}
	// the order in which waiters queued up matters to sync.Cond; keep it
	return fmt.Sprintf("n=%v p=%v closed=%v cancelled=%v pending=%v", in.mNormal, in.mPrio, in.mClosed, in.mCancelled, pend)
}

func (in *vfQInst) Finish(judge bool) string {
	// release everything so that the bubble can end: cancel contexts, close queue
	in.cancel[0]()
	in.cancel[1]()
	synctest.Wait()
	func() {
		defer func() { recover() }()
		in.q.Close()
	}()
	synctest.Wait()
	left := 0
	for _, p := range in.pending {
		select {
		case <-p.done:
		default:
			left++
		}
	}
	if left > 0 {
		in.x.violation("c15seq:finish:stuck", fmt.Sprintf("cap=%d: %d call(s) still blocked after cancelling both contexts and closing the queue", in.cap, left))
	}
	return ""
}

func vfC15SeqCfg(r *vfRun, capacity int) *vfExploreCfg {
	depth := 6
	if r.thorough {
		depth = 8
	}
	return &vfExploreCfg{
		Scenario: map[string]any{"part": "seq", "capacity": capacity},
		Name:     fmt.Sprintf("seq-cap%d", capacity),
		MaxDepth: depth,
		Bubble:   true,
		New:      func(x *vfExec) vfInstance { return vfQNew(x, capacity) },
	}
}

func vfC15SeqRun(r *vfRun) {
	for capacity := 1; capacity <= 3; capacity++ {
		if _, ok := r.nextCase(); !ok {
			continue
		}
		vfExplore(r, vfC15SeqCfg(r, capacity))
	}
	r.res.Bounds["seq_capacities"] = "1..3"
}

func vfC15SeqReplay(r *vfRun, raw json.RawMessage) bool {
	var c struct {
		Scenario struct {
			Part     string `json:"part"`
			Capacity int    `json:"capacity"`
		} `json:"scenario"`
	}
	json.Unmarshal(raw, &c)
	if c.Scenario.Part != "seq" {
		return false
	}
	vfReplayCase(r, vfC15SeqCfg(r, c.Scenario.Capacity), raw)
	return true
}
