package pubsub

// C19 (batch part): one MessageBatch object reused across PublishBatch calls
// while AddToBatch calls of other goroutines complete in between and the event
// loop is busy or free.  One real gossipsub node with a local subscription and
// an in-memory tracer; no peers.
//
// Events: add:L (AddToBatch to completion), addpark:L (AddToBatch from its own
// goroutine, parked inside the topic validator), vrel:L (the parked validator
// answers Accept and that AddToBatch completes), busy / free (the event loop
// is parked inside a thunk / continues), pub (PublishBatch of the shared
// batch).  Reference model: the batch is a list; PublishBatch takes the list;
// every taken label is delivered to the subscription exactly once and has
// exactly one DELIVER_MESSAGE and one PUBLISH_MESSAGE event; a label never
// taken is never delivered.  Judged at the end of every history, after the loop
// is free again and everything has quiesced.

import (
	"context"
	"fmt"
	"sort"
	"strings"
	"testing/synctest"

	pb "github.com/libp2p/go-libp2p-pubsub/pb"
	"github.com/libp2p/go-libp2p/core/peer"
)

type vfBatchInst struct {
	x      *vfExec
	w      *vfWorld
	n      *vfNode
	topic  *Topic
	sub    *Subscription
	trace  *vfMemTracer
	batch  MessageBatch
	model  []string       // labels in the batch (reference)
	taken  map[string]int // label -> times taken by a PublishBatch
	parked map[string]chan ValidationResult
	adding map[string]chan struct{} // parked AddToBatch calls
	used   map[string]bool
	busy   chan struct{}
	pubs   int
	prefix string // fingerprint prefix: "c19batch" (deliveries and trace events) or "c02batch" (deliveries only)
}

var vfBatchLabels = []string{"p1", "p2", "p3", "p4"}

func vfBatchNew(x *vfExec, prefix string) *vfBatchInst {
	in := &vfBatchInst{x: x, w: newVfWorld(), trace: &vfMemTracer{}, taken: map[string]int{}, parked: map[string]chan ValidationResult{},
		adding: map[string]chan struct{}{}, used: map[string]bool{}, prefix: prefix}
	n, err := vfNewNode(in.w, "N", "gossip", WithMessageSignaturePolicy(StrictNoSign), WithEventTracer(in.trace), WithGossipSubParams(vfGSParams("d2")),
		WithMessageIdFn(func(m *pb.Message) string { return string(m.GetData()) })) // the message ID is the label
	if err != nil {
		panic(err)
	}
	in.n = n
	// the validator parks the labels the explorer asked it to (the AddToBatch caller validates synchronously)
	err = n.ps.RegisterTopicValidator("t", func(ctx context.Context, _ peer.ID, m *Message) ValidationResult {
		l := string(m.GetData())
		if ch, ok := in.parked[l]; ok {
			select {
			case r := <-ch:
				return r
			case <-ctx.Done():
				return ValidationIgnore
			}
		}
		return ValidationAccept
	}, WithValidatorInline(true))
	if err != nil {
		panic(err)
	}
	if in.topic, err = n.ps.Join("t"); err != nil {
		panic(err)
	}
	if in.sub, err = in.topic.Subscribe(WithBufferSize(64)); err != nil {
		panic(err)
	}
	synctest.Wait()
	in.trace.take()
	return in
}

func (in *vfBatchInst) Enabled() []string {
	var evs []string
	for _, l := range vfBatchLabels {
		if !in.used[l] {
			if in.busy == nil {
				evs = append(evs, "add:"+l) // AddToBatch needs the loop (Preprocess hand-off): to completion only while it is free
			}
			if len(in.adding) == 0 && in.busy == nil {
				evs = append(evs, "addpark:"+l)
			}
			break // labels are interchangeable: always the next unused one
		}
	}
	for l := range in.adding {
		evs = append(evs, "vrel:"+l)
	}
	if in.busy == nil {
		evs = append(evs, "busy")
	} else {
		evs = append(evs, "free")
	}
	if in.pubs < 3 {
		evs = append(evs, "pub")
	}
	sort.Strings(evs)
	return evs
}

func (in *vfBatchInst) Apply(ev string, judge bool) string {
	name, l, _ := strings.Cut(ev, ":")
	switch name {
	case "add":
		in.used[l] = true
		if err := in.topic.AddToBatch(context.Background(), &in.batch, []byte(l)); err != nil {
			panic(err)
		}
		in.model = append(in.model, l)
	case "addpark":
		in.used[l] = true
		in.parked[l] = make(chan ValidationResult, 1)
		done := make(chan struct{})
		in.adding[l] = done
		go func() {
			defer close(done)
			if err := in.topic.AddToBatch(context.Background(), &in.batch, []byte(l)); err != nil {
				panic(err)
			}
		}()
	case "vrel":
		in.parked[l] <- ValidationAccept
		synctest.Wait()
		<-in.adding[l]
		delete(in.adding, l)
		in.model = append(in.model, l)
	case "busy":
		in.busy = make(chan struct{})
		gate := in.busy
		go func() { in.n.ps.eval <- func() { <-gate } }()
	case "free":
		close(in.busy)
		in.busy = nil
	case "pub":
		in.pubs++
		for _, x := range in.model {
			in.taken[x]++
		}
		in.model = nil
		// (with the loop busy and the one-slot channel occupied PublishBatch blocks: from its own goroutine)
		go func() {
			if err := in.n.ps.PublishBatch(&in.batch); err != nil {
				panic(err)
			}
		}()
	}
	synctest.Wait()
	return ""
}

func (in *vfBatchInst) Canon() string {
	var tk, ad, us []string
	for k, v := range in.taken {
		tk = append(tk, fmt.Sprintf("%s=%d", k, v))
	}
	for k := range in.adding {
		ad = append(ad, k)
	}
	for k := range in.used {
		us = append(us, k)
	}
	sort.Strings(tk)
	sort.Strings(ad)
	sort.Strings(us)
	// the node has no peers: its own state is a function of this harness state and of what is still queued, which
	// the sequence of publications (kept in taken / pubs) determines
	return fmt.Sprintf("model=%v taken=%v adding=%v used=%v busy=%v pubs=%d", in.model, tk, ad, us, in.busy != nil, in.pubs)
}

func (in *vfBatchInst) Finish(judge bool) string {
	if in.busy != nil {
		close(in.busy)
		in.busy = nil
	}
	synctest.Wait()
	for l := range in.adding {
		in.parked[l] <- ValidationAccept
	}
	synctest.Wait()
	delivered := map[string]int{}
	for {
		select {
		case m := <-in.sub.ch:
			delivered[string(m.GetData())]++
			continue
		default:
		}
		break
	}
	evs := in.trace.take()
	pubN, delN := 0, 0
	delByID := map[string]int{}
	for _, e := range evs {
		switch e.GetType() {
		case pb.TraceEvent_PUBLISH_MESSAGE:
			pubN++
		case pb.TraceEvent_DELIVER_MESSAGE:
			delN++
			delByID[string(e.GetDeliverMessage().GetMessageID())]++
		}
	}
	var rec []string
	bad := func(fp, format string, a ...any) {
		if judge {
			if in.prefix == "c02batch" && fp != "delivered-twice" {
				return // C02 is about "at most once per ID and subscription"; the trace and lost or stray messages are C19's business
			}
			in.x.violation(in.prefix+":"+fp, fmt.Sprintf(format, a...)+fmt.Sprintf(" (taken by PublishBatch: %v, delivered: %v)", in.taken, delivered))
		}
	}
	nTaken := 0
	for _, l := range vfBatchLabels {
		want := in.taken[l]
		if want > 1 {
			want = 1 // cannot happen: a label is added once
		}
		nTaken += want
		if delivered[l] > 1 {
			bad("delivered-twice", "message %s (one message ID) was delivered %d times to the local subscription", l, delivered[l])
		}
		if delivered[l] != want {
			if delivered[l] > want {
				bad("delivered-too-often", "message %s was delivered %d times to the local subscription, want %d", l, delivered[l], want)
			} else {
				bad("published-not-delivered", "message %s was handed to PublishBatch but delivered %d times", l, delivered[l])
			}
		}
		rec = append(rec, fmt.Sprintf("%s:%d/%d", l, delivered[l], want))
	}
	for id, n := range delByID {
		if n > 1 {
			bad("deliver-event-twice", "message %s has %d DELIVER_MESSAGE events", id, n)
		}
	}
	if delN != nTaken {
		bad("deliver-events", "%d DELIVER_MESSAGE events for %d messages handed to PublishBatch", delN, nTaken)
	}
	nUsed := 0
	for range in.used {
		nUsed++
	}
	if pubN != nUsed {
		bad("publish-events", "%d PUBLISH_MESSAGE events for %d local publication attempts (AddToBatch calls)", pubN, nUsed)
	}
	if judge {
		in.x.r.count("batch_histories_judged", 1)
		if nTaken > 0 {
			in.x.r.count("batch_histories_with_publications", 1)
		}
	}
	vfTeardown(in.w, in.n)
	return strings.Join(rec, " ")
}

func vfBatchCfg(thorough bool, prefix string) *vfExploreCfg {
	depth := 8
	if thorough {
		depth = 11
	}
	return &vfExploreCfg{Scenario: map[string]any{"part": "batch"}, Name: "batch-reuse", MaxDepth: depth, Bubble: true,
		New: func(x *vfExec) vfInstance { return vfBatchNew(x, prefix) }}
}
