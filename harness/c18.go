package pubsub

// C18: the peer-event stream of a topic reproduces the topic's peer set.
//
// World: one real node with topic "t" joined, two scripted fake peers.
// Events: remote subscribe / unsubscribe / disconnect / reconnect, handler
// creation and cancellation, NextPeerEvent issued as a blocking call that may
// stay pending across later events, cancellation of a pending call.
// Oracle (after every event and, with a full drain, at the end of every
// history): fold(returned events) == topics[t]; per peer strict alternation
// starting with join; no pending call blocked while the log is non-empty.

import (
	"context"
	"encoding/json"
	"fmt"
	"runtime"
	"sort"
	"strings"
	"testing/synctest"
	"unsafe"

	"github.com/libp2p/go-libp2p/core/peer"
)

type vfEvtCall struct {
	cancel context.CancelFunc
	done   chan string // "J:a", "L:a", "err"
}

type vfEvtHandler struct {
	h         *TopicEventHandler
	name      string
	cancelled bool
	fold      map[string]bool   // peer label -> present
	last      map[string]string // peer label -> "J"/"L"
	pending   *vfEvtCall
	pair      []*vfEvtCall // two concurrent consumers, held between their look at the (empty) log and their wait
	pairGate  chan struct{}
	returned  int
}

type vfC18Inst struct {
	x          *vfExec
	w          *vfWorld
	n          *vfNode
	topic      *Topic
	fakes      map[string]*vfFake
	conn       map[string]bool
	handlers   []*vfEvtHandler
	router     string
	variant    string
	closeRaced bool
	topicGone  bool
	lastEv     string
	lastPts    []vfChoicePoint
}

// LastDeviations: which of several pending events NextPeerEvent hands out is map iteration order in the
// library; the hook gives the choice to the explorer, which takes every alternative as a sibling event.
func (in *vfC18Inst) LastDeviations() []string {
	return vfDeviations(in.lastEv, in.lastPts, []string{"event"}, 0)
}

// variant "queueless": the node never gets an outbound stream to peer b (opening it fails every time), so b is a
// topic member known through its own stream only, without an outbound queue.
func vfC18New(x *vfExec, router, variant string) *vfC18Inst {
	in := &vfC18Inst{x: x, w: newVfWorld(), fakes: map[string]*vfFake{}, conn: map[string]bool{}, router: router, variant: variant}
	n, err := vfNewNode(in.w, "N", router, WithMessageSignaturePolicy(StrictNoSign))
	if err != nil {
		panic(err)
	}
	in.n = n
	proto := FloodSubID
	if router == "gossip" {
		proto = GossipSubID_v11
	}
	for _, name := range []string{"a", "b"} {
		in.fakes[name] = newVfFake(in.w, name, proto)
	}
	t, err := n.ps.Join("t")
	if err != nil {
		panic(err)
	}
	in.topic = t
	if variant == "queueless" {
		in.w.setPolicy(n.id(), in.fakes["b"].ident.id, vfStreamFail)
	}
	for _, name := range []string{"a", "b"} {
		in.connect(name)
	}
	synctest.Wait()
	return in
}

func (in *vfC18Inst) connect(name string) {
	f := in.fakes[name]
	in.w.connect(f.ident.id, in.n.id(), "10.0.0.1", "10.0.0.2")
	synctest.Wait()
	if err := f.openInbound(in.n.h, f.protos[0]); err != nil {
		panic(err)
	}
	in.conn[name] = true
	synctest.Wait()
}

func (in *vfC18Inst) Enabled() []string {
	var evs []string
	var logs map[string]int
	for _, name := range []string{"a", "b"} {
		if in.conn[name] {
			evs = append(evs, "sub:"+name, "unsub:"+name, "disc:"+name)
			if name == "a" && in.variant == "partial" {
				evs = append(evs, "subp:"+name)
			}
		} else {
			evs = append(evs, "conn:"+name)
		}
	}
	if len(in.handlers) == 0 && !in.closeRaced && in.variant == "" && in.router == "flood" {
		evs = append(evs, "hclose")
	}
	if len(in.handlers) < 2 && !in.topicGone {
		evs = append(evs, "handler")
		// handler creation with a remote (un)subscription processed by the event loop right behind it
		for _, name := range []string{"a", "b"} {
			if in.conn[name] {
				evs = append(evs, "hrace:sub:"+name, "hrace:unsub:"+name)
			}
		}
	}
	for _, h := range in.handlers {
		if h.cancelled {
			continue
		}
		if h.pair != nil {
			evs = append(evs, "rel2:"+h.name)
			continue // (no other call on this handler while the pair is out)
		}
		if h.pending == nil && in.variant == "pair" {
			if logs == nil {
				_, logs = in.truth()
			}
			if logs[h.name] == 0 {
				evs = append(evs, "next2:"+h.name)
			}
		}
		if h.pending == nil {
			evs = append(evs, "next:"+h.name)
			// (only with something in the log: on an empty log the call chooses between a stale wake-up signal and
			// its dead context, and that choice is the runtime's)
			if logs == nil {
				_, logs = in.truth()
			}
			if logs[h.name] > 0 {
				evs = append(evs, "nextdead:"+h.name)
			}
		} else {
			evs = append(evs, "cancelnext:"+h.name)
		}
		evs = append(evs, "hcancel:"+h.name)
	}
	return evs
}

func (in *vfC18Inst) handler(name string) *vfEvtHandler {
	for _, h := range in.handlers {
		if h.name == name {
			return h
		}
	}
	return nil
}

func (in *vfC18Inst) startNext(h *vfEvtHandler) {
	ctx, cancel := context.WithCancel(context.Background())
	c := &vfEvtCall{cancel: cancel, done: make(chan string, 1)}
	h.pending = c
	go func() {
		ev, err := h.h.NextPeerEvent(ctx)
		if err != nil {
			c.done <- "err"
			return
		}
		k := "J"
		if ev.Type == PeerLeave {
			k = "L"
		}
		c.done <- k + ":" + vfName(ev.Peer)
	}()
}

// vfHoldCtx is a context whose Done() parks until the gate opens. NextPeerEvent evaluates ctx.Done() as an operand of
// its select, i.e. after it has found the log empty and released the lock and before it waits for the wake-up
// signal: a consumer is held exactly in the window in which a signal can pass it by.
type vfHoldCtx struct {
	context.Context
	gate chan struct{}
}

func (c *vfHoldCtx) Done() <-chan struct{} {
	<-c.gate
	return c.Context.Done()
}

// startPair starts two concurrent NextPeerEvent calls on one handler, both held in that window.
func (in *vfC18Inst) startPair(h *vfEvtHandler) {
	h.pairGate = make(chan struct{})
	for i := 0; i < 2; i++ {
		ctx, cancel := context.WithCancel(context.Background())
		c := &vfEvtCall{cancel: cancel, done: make(chan string, 1)}
		h.pair = append(h.pair, c)
		hc := &vfHoldCtx{Context: ctx, gate: h.pairGate}
		go func() {
			ev, err := h.h.NextPeerEvent(hc)
			if err != nil {
				c.done <- "err"
				return
			}
			k := "J"
			if ev.Type == PeerLeave {
				k = "L"
			}
			c.done <- k + ":" + vfName(ev.Peer)
		}()
	}
}

// feed applies one returned event to the handler's monitor.
func (in *vfC18Inst) feed(h *vfEvtHandler, r string) string {
	kind, who, _ := strings.Cut(r, ":")
	h.returned++
	prev := h.last[who]
	if (prev == "" && kind != "J") || prev == kind {
		in.x.violation("c18:alternation", fmt.Sprintf("handler %s returned %s for peer %s after %q: events must alternate starting with join", h.name, kind, who, prev))
	}
	h.last[who] = kind
	if kind == "J" {
		h.fold[who] = true
	} else {
		delete(h.fold, who)
	}
	return h.name + "=" + r
}

// releasePair lets the two held consumers go on to wait (or to find what has been logged meanwhile); whoever is still
// waiting at quiescence although the log is not empty has lost its wake-up.
func (in *vfC18Inst) releasePair(h *vfEvtHandler) {
	close(h.pairGate)
	synctest.Wait()
	var obs2 []string
	left := 0
	for _, c := range h.pair {
		select {
		case r := <-c.done:
			c.cancel()
			if r != "err" {
				obs2 = append(obs2, in.feed(h, r))
			}
		default:
			left++
		}
	}
	if left > 0 {
		_, logs := in.truth()
		if logs[h.name] > 0 {
			in.x.violation("c18:lost-wakeup", fmt.Sprintf("%d of two concurrent NextPeerEvent calls on %s are blocked at quiescence although %d event(s) are logged (returned so far: %v)", left, h.name, logs[h.name], obs2))
		}
		for _, c := range h.pair {
			c.cancel() // the ones still waiting are withdrawn
		}
		synctest.Wait()
	}
	h.pair, h.pairGate = nil, nil
}

// harvest collects a completed pending call and feeds the per-handler monitor.
func (in *vfC18Inst) harvest(h *vfEvtHandler) string {
	if h.pending == nil {
		return ""
	}
	select {
	case r := <-h.pending.done:
		h.pending.cancel()
		h.pending = nil
		if r == "err" {
			return h.name + "=err"
		}
		kind, who, _ := strings.Cut(r, ":")
		h.returned++
		prev := h.last[who]
		if (prev == "" && kind != "J") || prev == kind {
			in.x.violation("c18:alternation", fmt.Sprintf("handler %s returned %s for peer %s after %q: events must alternate starting with join", h.name, kind, who, prev))
		}
		h.last[who] = kind
		if kind == "J" {
			h.fold[who] = true
		} else {
			delete(h.fold, who)
		}
		return h.name + "=" + r
	default:
		return ""
	}
}

func (in *vfC18Inst) truth() (members []string, logs map[string]int) {
	logs = map[string]int{}
	in.n.eval(func() {
		for p := range in.n.ps.topics["t"] {
			members = append(members, vfName(p))
		}
		for _, h := range in.handlers {
			h.h.evtLogMx.Lock()
			logs[h.name] = len(h.h.evtLog)
			h.h.evtLogMx.Unlock()
		}
	})
	sort.Strings(members)
	return
}

func (in *vfC18Inst) Apply(evFull string, judge bool) string {
	ev, ov := vfSplitChoice(evFull)
	vfCh.begin(ov)
	in.lastEv = evFull
	defer func() { in.lastPts = vfCh.points() }()
	name, arg, _ := strings.Cut(ev, ":")
	switch name {
	case "sub":
		in.fakes[arg].send(vfSubRPC("t", true))
	case "unsub":
		in.fakes[arg].send(vfSubRPC("t", false))
	case "subp":
		// the same announcement with the partial-message options set: membership is the same fact whatever the options
		yes := true
		rpc := vfSubRPC("t", true)
		rpc.Subscriptions[0].RequestsPartial, rpc.Subscriptions[0].SupportsSendingPartial = &yes, &yes
		in.fakes[arg].send(rpc)
	case "disc":
		in.w.disconnect(in.fakes[arg].ident.id, in.n.id())
		in.conn[arg] = false
	case "conn":
		in.connect(arg)
	case "handler":
		h, err := in.topic.EventHandler()
		if err != nil {
			panic(err)
		}
		eh := &vfEvtHandler{h: h, name: fmt.Sprintf("h%d", len(in.handlers)+1), fold: map[string]bool{}, last: map[string]string{}}
		in.n.label(unsafe.Pointer(h), eh.name)
		in.handlers = append(in.handlers, eh)
	case "hrace":
		// The event loop is parked inside a thunk; EventHandler() queues its registration thunk, and behind it
		// a second thunk does what the loop does on receiving the peer's RPC (handleIncomingRPC).  Blocked
		// senders on one channel are served first-come-first-served and the loop does not yield between two
		// ready receives (workers run with GOMAXPROCS=1), so the RPC is handled before the EventHandler caller
		// runs again: whatever EventHandler does after its thunk is too late for this event.
		kind, who, _ := strings.Cut(arg, ":")
		gate := make(chan struct{})
		ps := in.n.ps
		go func() { ps.eval <- func() { <-gate } }()
		synctest.Wait()
		var h *TopicEventHandler
		hdone := make(chan struct{})
		go func() {
			defer close(hdone)
			var err error
			if h, err = in.topic.EventHandler(); err != nil {
				panic(err)
			}
		}()
		synctest.Wait()
		rpc := vfSubRPC("t", kind == "sub")
		rpc.from = in.fakes[who].ident.id
		go func() { ps.eval <- func() { ps.handleIncomingRPC(rpc) } }()
		synctest.Wait()
		close(gate)
		synctest.Wait()
		<-hdone
		eh := &vfEvtHandler{h: h, name: fmt.Sprintf("h%d", len(in.handlers)+1), fold: map[string]bool{}, last: map[string]string{}}
		in.n.label(unsafe.Pointer(h), eh.name)
		in.handlers = append(in.handlers, eh)
	case "hclose":
		// Topic.Close racing the creation of the topic's first handler: Close is started from inside EventHandler (an
		// option runs after EventHandler has checked that the topic is open and before the handler is registered) and
		// gets every chance to run. Either Close waits and is then refused because of the handler, or the handler is
		// refused because the topic is closed -- a handler that was handed out has to follow the topic's peer set.
		closeDone := make(chan error, 1)
		opt := func(*TopicEventHandler) error {
			go func() { closeDone <- in.topic.Close() }()
			for i := 0; i < 200; i++ {
				runtime.Gosched() // (no synctest.Wait here: a Close that waits does so on a mutex)
			}
			return nil
		}
		h, err := in.topic.EventHandler(opt)
		synctest.Wait()
		if cerr := <-closeDone; cerr == nil {
			in.topicGone = true // (no further handlers can be asked for; the one handed out is still judged)
		}
		in.closeRaced = true
		if err == nil {
			eh := &vfEvtHandler{h: h, name: fmt.Sprintf("h%d", len(in.handlers)+1), fold: map[string]bool{}, last: map[string]string{}}
			in.n.label(unsafe.Pointer(h), eh.name)
			in.handlers = append(in.handlers, eh)
		}
	case "next2":
		// two concurrent consumers on one handler, both past their look at the empty log and not yet waiting
		in.startPair(in.handler(arg))
	case "rel2":
		in.releasePair(in.handler(arg))
	case "next":
		in.startNext(in.handler(arg))
	case "nextdead":
		// NextPeerEvent with a context that is already cancelled: it may hand out a pending event or report the
		// cancellation, but whatever it took from the log it has to hand out
		h := in.handler(arg)
		in.startNext(h)
		h.pending.cancel()
	case "cancelnext":
		in.handler(arg).pending.cancel()
	case "hcancel":
		h := in.handler(arg)
		h.h.Cancel()
		h.cancelled = true
	}
	synctest.Wait()
	var obs []string
	for _, h := range in.handlers {
		if o := in.harvest(h); o != "" {
			obs = append(obs, o)
		}
	}
	// lost wake-up: a call is still blocked although its handler's log is non-empty
	_, logs := in.truth()
	for _, h := range in.handlers {
		if h.pending != nil && logs[h.name] > 0 {
			in.x.violation("c18:lost-wakeup", fmt.Sprintf("NextPeerEvent on %s is blocked at quiescence although %d event(s) are logged", h.name, logs[h.name]))
		}
		if h.pending != nil {
			in.x.r.count("steps_with_blocked_consumer", 1)
		}
	}
	return strings.Join(obs, " ")
}

func (in *vfC18Inst) Canon() string {
	var sb strings.Builder
	sb.WriteString(in.n.canon())
	for _, name := range []string{"a", "b"} {
		fmt.Fprintf(&sb, "\n%s: conn=%v %s", name, in.conn[name], in.fakes[name].streamStates())
	}
	for _, h := range in.handlers {
		var f, l []string
		for k := range h.fold {
			f = append(f, k)
		}
		for k, v := range h.last {
			l = append(l, k+v)
		}
		sort.Strings(f)
		sort.Strings(l)
		fmt.Fprintf(&sb, "\n%s: cancelled=%v fold=%v last=%v pending=%v pair=%v", h.name, h.cancelled, f, l, h.pending != nil, h.pair != nil)
	}
	return sb.String()
}

func (in *vfC18Inst) Finish(judge bool) string {
	vfCh.begin(nil)
	// drain every live handler, then compare the fold with the ground truth
	var obs []string
	for _, h := range in.handlers {
		if h.pair != nil {
			in.releasePair(h)
		}
		if h.cancelled {
			if h.pending != nil {
				h.pending.cancel()
				synctest.Wait()
				in.harvest(h)
			}
			continue
		}
		for i := 0; i < 16; i++ {
			if h.pending == nil {
				in.startNext(h)
			}
			synctest.Wait()
			o := in.harvest(h)
			if o == "" {
				break // blocked: drained
			}
			obs = append(obs, o)
		}
		if h.pending != nil {
			h.pending.cancel()
			synctest.Wait()
			in.harvest(h)
		}
	}
	members, logs := in.truth()
	for _, h := range in.handlers {
		if h.cancelled {
			continue
		}
		var f []string
		for k := range h.fold {
			f = append(f, k)
		}
		sort.Strings(f)
		if strings.Join(f, ",") != strings.Join(members, ",") {
			in.x.violation("c18:fold-mismatch", fmt.Sprintf("handler %s: applying the returned events yields %v but the topic's peer set is %v (log left: %d)", h.name, f, members, logs[h.name]))
		}
		if h.returned > 0 {
			in.x.r.count("handlers_with_events", 1)
		}
	}
	vfTeardown(in.w, in.n)
	if left := vfLeftovers(); len(left) > 0 {
		in.x.r.count("hygiene_leftover_goroutines", int64(len(left)))
		if in.x.r.res.Counters["hygiene_leftover_goroutines"] < 5 {
			in.x.r.note("leftover: %s", strings.Join(left, "\n---\n"))
		}
	}
	return strings.Join(obs, " ") + " members=" + strings.Join(members, ",")
}

func vfC18Cfg(r *vfRun, router, variant string) *vfExploreCfg {
	depth := 8
	if r.thorough {
		depth = 11
	}
	name := router
	if variant != "" {
		name += "-" + variant
		depth-- // (the variants repeat the base exploration with one peer changed)
	}
	if variant == "partial" {
		depth-- // (... or with one more event in the alphabet: peer a re-announcing itself with the partial-message options)
	}
	if variant == "pair" {
		depth-- // (... or with two concurrent consumers held in the window between looking and waiting)
	}
	return &vfExploreCfg{
		Scenario: map[string]any{"router": router, "variant": variant},
		Name:     name,
		MaxDepth: depth,
		Bubble:   true,
		New:      func(x *vfExec) vfInstance { return vfC18New(x, router, variant) },
	}
}

func init() {
	vfRegister("C18", &vfCheck{
		run: func(r *vfRun) {
			for _, variant := range []string{"", "queueless"} {
				for _, router := range []string{"flood", "gossip"} {
					if _, ok := r.nextCase(); ok {
						vfExplore(r, vfC18Cfg(r, router, variant))
					}
				}
			}
			if _, ok := r.nextCase(); ok {
				vfExplore(r, vfC18Cfg(r, "flood", "partial"))
			}
			if _, ok := r.nextCase(); ok {
				vfExplore(r, vfC18Cfg(r, "flood", "pair"))
			}
		},
		replay: func(r *vfRun, raw json.RawMessage) {
			var c struct {
				Scenario struct {
					Router  string `json:"router"`
					Variant string `json:"variant"`
				} `json:"scenario"`
			}
			json.Unmarshal(raw, &c)
			vfReplayCase(r, vfC18Cfg(r, c.Scenario.Router, c.Scenario.Variant), raw)
		},
	})
}

var _ = peer.ID("")
