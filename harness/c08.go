package pubsub

// C08: prune backoff is honoured in both directions.  A monitor automaton per
// (peer, topic) is fed by the in-loop snapshots and the wire log in virtual time.

import (
	"encoding/json"
	"fmt"
	"sort"
	"strings"
	"time"
)

type vfC08Mon struct {
	deadline map[string]time.Duration // "p|t" -> earliest time (since t0) a GRAFT may be sent
	boLen    map[string]time.Duration // length of the backoff that set the deadline
	setAt    map[string]time.Duration
}

func vfC08Canon(in *vfGWInst) string {
	m := in.mon.(*vfC08Mon)
	var l []string
	now := in.last.Now
	for k, d := range m.deadline {
		if d > now {
			l = append(l, fmt.Sprintf("%s:+%d/%d", k, (d-now)/time.Millisecond, m.boLen[k]/time.Millisecond))
		}
	}
	sort.Strings(l)
	return strings.Join(l, ",")
}

func (m *vfC08Mon) oblige(p, t string, at, length time.Duration) {
	k := p + "|" + t
	if at+length > m.deadline[k] {
		m.deadline[k] = at + length
		m.boLen[k] = length
		m.setAt[k] = at
	}
}

func vfC08Oracle(in *vfGWInst, evFull string, pre, post *vfSnap) {
	g := in.g
	if !pre.OK || !post.OK || g.n.gs == nil {
		return
	}
	m := in.mon.(*vfC08Mon)
	ev, _ := vfSplitChoice(evFull)
	f := strings.Split(ev, ":")
	params := g.n.gs.params
	// 1. nothing on the wire may be an early GRAFT; every PRUNE to a v1.1+ peer states the backoff
	for _, name := range g.order {
		// (PRUNEs sent earlier in this very step count too: a peer pruned and grafted again by one and the same
		// heartbeat never shows as a change of the mesh between two steps)
		type sentPrune struct{ at, length time.Duration }
		prunedNow := map[string]sentPrune{}
		for _, r := range g.wire[name] {
			if r.rpc == nil {
				continue
			}
			for _, pr := range r.rpc.GetControl().GetPrune() {
				length := time.Duration(pr.GetBackoff()) * time.Second
				if length == 0 {
					length = params.PruneBackoff
					if f[0] == "leave" {
						length = params.UnsubscribeBackoff
					}
				}
				prunedNow[pr.GetTopicID()] = sentPrune{r.at, length}
			}
			for _, gr := range r.rpc.GetControl().GetGraft() {
				t := gr.GetTopicID()
				in.count("grafts_on_wire")
				if f[0] == "ungate" && f[1] == name {
					continue // released from a blocked write: decided before the gate, not judged
				}
				if sp, ok := prunedNow[t]; ok && r.at+time.Millisecond < sp.at+sp.length {
					in.bad("c08:early-graft", "GRAFT for %s sent to %s at %v, in the same step as (and not before) a PRUNE for it sent at %v that starts a backoff of %v", t, name, r.at, sp.at, sp.length)
				}
				if d := m.deadline[name+"|"+t]; d > r.at+time.Millisecond {
					in.bad("c08:early-graft", "GRAFT for %s sent to %s at %v, but the backoff (length %v, set at %v) only expires at %v", t, name, r.at, m.boLen[name+"|"+t], m.setAt[name+"|"+t], d)
				}
			}
			for _, pr := range r.rpc.GetControl().GetPrune() {
				in.count("prunes_on_wire")
				proto := g.pcfg[name].Proto
				if proto == "v11" || proto == "v12" || proto == "v13" {
					if pr.Backoff == nil || pr.GetBackoff() == 0 {
						in.bad("c08:prune-without-backoff", "PRUNE for %s sent to %s (%s) does not state a backoff", pr.GetTopicID(), name, proto)
					} else if b := time.Duration(pr.GetBackoff()) * time.Second; b != params.PruneBackoff && b != params.UnsubscribeBackoff {
						in.bad("c08:prune-wrong-backoff", "PRUNE for %s sent to %s states backoff %v (configured: prune %v, unsubscribe %v)", pr.GetTopicID(), name, b, params.PruneBackoff, params.UnsubscribeBackoff)
					} else if f[0] == "leave" && b != params.UnsubscribeBackoff {
						in.bad("c08:prune-wrong-backoff", "PRUNE sent on leaving %s states backoff %v, want the unsubscribe backoff %v", pr.GetTopicID(), b, params.UnsubscribeBackoff)
					}
				}
			}
		}
	}
	// 2. new obligations (lower bounds on the true deadline: the decision was taken no earlier than pre.Now)
	for t, preMesh := range pre.Mesh {
		postMesh, still := post.Mesh[t]
		for p := range preMesh {
			if still && postMesh[p] {
				continue
			}
			if _, conn := post.Peers[p]; !conn {
				continue // departed, not pruned
			}
			if (f[0] == "prune" || f[0] == "prunepx") && f[1] == p && f[2] == t {
				continue // handled below (pruned by the peer)
			}
			if (f[0] == "outreset" || f[0] == "outclose") && f[1] == p {
				// our outbound stream to the peer died: it leaves the mesh with the stream (no PRUNE can be sent, and
				// none is owed); that is a departure, not a prune, even though the stream is re-opened at once
				in.count("mesh_member_lost_with_its_outbound_stream")
				continue
			}
			if !still { // left the topic
				m.oblige(p, t, pre.Now, params.UnsubscribeBackoff)
				in.count("obligation_leave")
			} else {
				m.oblige(p, t, pre.Now, params.PruneBackoff)
				in.count("obligation_pruned_by_node")
			}
		}
	}
	if (f[0] == "prune" || f[0] == "prunepx") && g.conn[f[1]] {
		p, t := f[1], f[2]
		if _, joined := pre.Mesh[t]; joined && !(g.cfg.Scoring && pre.Score[p] < g.n.gs.graylistThreshold) {
			length := params.PruneBackoff
			if len(f) > 3 && f[3] != "" && f[3] != "0" {
				var s int
				fmt.Sscanf(f[3], "%d", &s)
				length = time.Duration(s) * time.Second
			}
			m.oblige(p, t, pre.Now, length)
			in.count("obligation_pruned_by_peer")
			if rem, ok := post.Backoff[t][p]; !ok || rem < length-time.Millisecond {
				in.bad("c08:backoff-not-recorded", "PRUNE for %s from %s (backoff %v) left a recorded backoff of %v", t, p, length, rem)
			}
		}
	}
	// 3. GRAFT received from a peer under backoff
	if f[0] == "graft" && g.conn[f[1]] {
		p, t := f[1], f[2]
		rem, has := pre.Backoff[t][p]
		_, joined := pre.Mesh[t]
		graylisted := g.cfg.Scoring && pre.Score[p] < g.n.gs.graylistThreshold
		if joined && has && rem > 0 && !pre.Mesh[t][p] && !pre.Direct[p] && !graylisted {
			in.count("graft_during_backoff")
			if post.Mesh[t][p] {
				in.bad("c08:graft-accepted-in-backoff", "GRAFT for %s from %s was accepted with %v of backoff remaining", t, p, rem)
			}
			sent := false
			for _, r := range g.sentTo(p) {
				if vfGetPrune(r, t) != nil {
					sent = true
				}
			}
			if !sent && strings.Contains(post.Control[p], "PRUNE["+t) {
				sent = true
			}
			if !sent && post.Queues[p] && !g.gated[p] && g.fakes[p].outAlive() { // a gated write may hold the reply in flight; without a live stream it waits in the queue
				in.bad("c08:no-prune-reply", "GRAFT for %s from backed-off %s was not answered with a PRUNE", t, p)
			}
			if g.cfg.Scoring {
				if _, tracked := pre.Penalty[p]; tracked {
					delta := post.Penalty[p] - pre.Penalty[p]
					if delta < 1 || delta > 2 {
						in.bad("c08:penalty", "GRAFT for %s from backed-off %s changed the behaviour penalty by %v (want 1 or 2)", t, p, delta)
					}
					k := p + "|" + t
					// exact expectation only where the cut-off arithmetic of the code is exact: the
					// pending backoff has the configured prune-backoff length
					if m.boLen[k] == params.PruneBackoff && m.deadline[k] > pre.Now && params.PruneBackoff-rem >= 0 {
						elapsed := params.PruneBackoff - rem
						want := 1.0
						if elapsed < params.GraftFloodThreshold {
							want = 2
							in.count("graft_inside_flood_threshold")
						}
						if delta != want {
							in.bad("c08:penalty-flood", "GRAFT for %s from %s %v after the prune changed the penalty by %v, want %v (flood threshold %v)", t, p, elapsed, delta, want, params.GraftFloodThreshold)
						}
					}
				}
			}
			if nrem := post.Backoff[t][p]; nrem < rem || nrem < params.PruneBackoff-time.Millisecond {
				in.bad("c08:backoff-not-extended", "GRAFT for %s from backed-off %s left %v of backoff (before: %v, prune backoff %v)", t, p, nrem, rem, params.PruneBackoff)
			}
			m.oblige(p, t, pre.Now, params.PruneBackoff)
		}
	}
	// 4. a recorded backoff must never be dropped before it expired
	for t, mp := range pre.Backoff {
		for p, rem := range mp {
			elapsed := post.Now - pre.Now
			if rem-elapsed > 0 {
				if nrem, ok := post.Backoff[t][p]; !ok || nrem < rem-elapsed-time.Millisecond {
					in.bad("c08:backoff-dropped", "backoff of %s on %s had %v left, %v later it is %v (present=%v)", p, t, rem, elapsed, nrem, ok)
				}
			}
		}
	}
}

func vfC08Scenarios(thorough bool) []*vfGWScenario {
	var out []*vfGWScenario
	peers := []vfPeerCfg{{Name: "a", Proto: "v11", IP: "10.0.0.1"}, {Name: "b", Proto: "v10", IP: "10.0.0.2"}, {Name: "c", Proto: "v12", IP: "10.0.0.3", Outbound: true}}
	prefix := []string{"conn:a", "conn:b", "conn:c", "sub:a:t", "sub:b:t", "sub:c:t"}
	d := 5
	if thorough {
		d = 7
	}
	mk := func(name, params string, q int, prefix, alphabet []string) {
		out = append(out, &vfGWScenario{Name: name, Cfg: vfGWCfg{Router: "gossip", Peers: peers, Topics: []string{"t"}, Params: params, Scoring: true, Prefix: prefix, QueueSize: q},
			Alphabet: alphabet, Depth: d})
	}
	mk("base", "d2", 0, prefix, []string{"join:t", "leave:t", "hb", "graft:a:t", "prune:a:t", "prune:a:t:1", "prune:a:t:60", "graft:b:t", "prune:b:t", "adv:900", "adv:1100", "adv:14000"})
	mk("joined", "d2", 0, append(append([]string{}, prefix...), "join:t"), []string{"leave:t", "join:t", "hb", "graft:a:t", "prune:a:t:8", "prune:c:t", "graft:c:t", "disc:a", "conn:a", "sub:a:t", "adv:900", "adv:3100", "adv:14000"})
	mk("retry", "d2", 1, append(append([]string{}, prefix...), "join:t"), []string{"leave:t", "join:t", "hb", "gate:a", "ungate:a", "prune:a:t:60", "graft:a:t", "score:a:-1", "score:a:0", "adv:2100"})
	mk("tight", "d2tight", 0, append(append([]string{}, prefix...), "join:t", "hb"), []string{"leave:t", "join:t", "hb", "prune:a:t", "prune:b:t", "prune:c:t:60", "graft:a:t", "adv:1100", "adv:4100", "adv:14000"})
	// PRUNEs that carry peer exchange, from peers above and below the accept-PX threshold (2): whether or not the
	// offer is taken, the backoff counts
	out = append(out, &vfGWScenario{Name: "px", Cfg: vfGWCfg{Router: "gossip", Peers: peers, Topics: []string{"t"}, Params: "d2tight", Scoring: true, PX: true,
		Prefix: append(append([]string{}, prefix...), "join:t", "hb")},
		Alphabet: []string{"hb", "prunepx:a:t", "prunepx:c:t", "score:a:3", "score:a:1", "score:c:2.5", "graft:a:t", "adv:1100", "adv:4100"}, Depth: d})
	// a peer under backoff goes away and comes back inside the window (the backoff has to outlive its streams)
	mk("tight-return", "d2tight", 0, append(append([]string{}, prefix...), "join:t", "hb"), []string{"hb", "prune:a:t", "prune:a:t:60", "disc:a", "conn:a", "sub:a:t", "outreset:a", "graft:a:t", "adv:1100", "leave:t", "join:t"})
	// leaving, publishing into the topic from outside (fanout) and joining again inside the backoff: the promotion of
	// the fanout set to the mesh, and its top-up, have to respect the unsubscribe and prune backoffs
	mk("fanout-return", "d2tight", 0, append(append([]string{}, prefix...), "join:t", "hb"), []string{"leave:t", "lpub:t:p1", "join:t", "hb", "prune:a:t", "prune:b:t:60", "adv:1100", "adv:4100", "adv:14000"})
	// a heartbeat that cuts an over-subscribed mesh and grafts opportunistically in the same breath, from a state
	// without any backoff entry for the topic: the peers it has just pruned are under backoff from that moment
	{
		p6 := []vfPeerCfg{{Name: "a", Proto: "v11", IP: "10.0.0.1"}, {Name: "b", Proto: "v11", IP: "10.0.0.2", Outbound: true}, {Name: "c", Proto: "v12", IP: "10.0.0.3"},
			{Name: "d", Proto: "v11", IP: "10.0.0.4", Outbound: true}, {Name: "e", Proto: "v11", IP: "10.0.0.5", Outbound: true}, {Name: "f", Proto: "v12", IP: "10.0.0.6", Outbound: true}}
		var pre []string
		for _, p := range p6 {
			pre = append(pre, "conn:"+p.Name)
		}
		for _, p := range p6 {
			pre = append(pre, "sub:"+p.Name+":t")
		}
		pre = append(pre, "join:t")
		for _, p := range p6 {
			pre = append(pre, "graft:"+p.Name+":t")
		}
		pre = append(pre, "score:a:0.8", "score:b:0.6", "score:c:0.4", "score:d:0.2", "score:e:0.1")
		out = append(out, &vfGWScenario{Name: "over-oppgraft", Cfg: vfGWCfg{Router: "gossip", Peers: p6, Topics: []string{"t"}, Params: "d4og", Scoring: true, Prefix: pre},
			Alphabet: []string{"hb", "score:f:0.7", "score:a:-1", "prune:b:t", "graft:b:t", "adv:5000"}, Depth: d, DevKinds: []string{"peers"}, DevEvents: []string{"hb"}, DevMax: 4})
	}
	return out
}

func vfC08Mk(x *vfExec, sc *vfGWScenario) vfInstance {
	in := newVfGWInst(x, sc, nil)
	in.mon = &vfC08Mon{deadline: map[string]time.Duration{}, boLen: map[string]time.Duration{}, setAt: map[string]time.Duration{}}
	in.monCanon = vfC08Canon
	in.oracle = vfC08Oracle
	return in
}

func init() {
	vfRegister("C08", &vfCheck{
		run:    func(r *vfRun) { vfRunGWScenarios(r, vfC08Scenarios(r.thorough), vfC08Mk) },
		replay: func(r *vfRun, raw json.RawMessage) { vfReplayGWScenario(r, raw, vfC08Mk) },
	})
}
