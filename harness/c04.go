package pubsub

// C04: validator verdicts decide delivery, forwarding and penalties.
//
// A scenario is one assignment of up to k validators (default / topic, inline /
// asynchronous, verdict in {Accept, Reject, Ignore, out-of-range}, optional
// timeout that fires, optional exhausted throttle).  Asynchronous validators
// are gated, so every completion order is an explored history; duplicates from
// a second forwarder are injected at every point; a local publication goes
// through the same validators.  The decision table is taken from the statement.

import (
	"encoding/json"
	"fmt"
	"sort"
	"strings"

	pb "github.com/libp2p/go-libp2p-pubsub/pb"
	"github.com/libp2p/go-libp2p/core/peer"
)

type vfC04Inst struct {
	*vfGWInst
	vals     []vfValCfg
	pushed   map[string][]string // message -> forwarders whose copy reached the node, in order
	decided  map[string]bool
	invalid0 map[string]float64
	released map[string]map[string]bool    // message -> validators released
	refused  map[string]map[string]float64 // message -> forwarder -> copies refused by a full validation queue (from the trace)
	firedTO  bool
}

// applies: default validators apply to every message, a topic's validator to the messages of that topic.
func (in *vfC04Inst) applies(v vfValCfg, label string) bool {
	if v.Topic == "" {
		return true
	}
	if spec, ok := in.g.msgs[strings.TrimPrefix(label, "local:")]; ok && spec.Topic != "" {
		return v.Topic == spec.Topic
	}
	return v.Topic == "t" // local publications of this check go to topic t
}

// expected final verdict for a message given which validators apply
func (in *vfC04Inst) expected(local bool, label string) string {
	res := "A"
	worse := func(a, b string) string { // Reject > Throttled > Ignore > Accept
		rank := map[string]int{"A": 0, "I": 1, "T": 2, "R": 3}
		if rank[b] > rank[a] {
			return b
		}
		return a
	}
	verdictOf := func(v vfValCfg) string {
		x := v.Verdict
		if x == "" {
			x = "A"
		}
		if x == "U" || x == "N" || x == "Z" {
			x = "I"
		}
		if v.TimeoutMs > 0 && !local {
			x = "I" // the harness validator answers Ignore when its deadline fires (local publications are never parked)
		}
		if v.Throttle < 0 {
			x = "T"
		}
		return x
	}
	// inline stage (everything is inline for a local publication): stops at the first Reject
	for _, v := range in.vals {
		if !in.applies(v, label) {
			continue
		}
		if v.Inline || local {
			if !local {
				// a remote message whose first inline validator was never invoked never entered validation: the
				// validation queue was full ("validation is throttled")
				in.g.vmu.Lock()
				calls := in.g.valCalls[v.Name+"|"+label]
				in.g.vmu.Unlock()
				if calls == 0 {
					in.count("message_refused_by_full_validation_queue")
					return "T"
				}
			}
			x := verdictOf(v)
			if x == "T" {
				x = v.Verdict // throttles only apply to the asynchronous stage
				if x == "U" || x == "N" || x == "Z" {
					x = "I"
				}
				if x == "" {
					x = "A"
				}
			}
			res = worse(res, x)
			if x == "R" {
				return "R"
			}
		}
	}
	if local {
		return res
	}
	for _, v := range in.vals {
		if !v.Inline && in.applies(v, label) {
			x := verdictOf(v)
			// an asynchronous validator that was never invoked for this message although the asynchronous stage
			// was reached was throttled (its own concurrency limit or the global one): "validation is throttled"
			in.g.vmu.Lock()
			calls := in.g.valCalls[v.Name+"|"+label]
			in.g.vmu.Unlock()
			if calls == 0 {
				x = "T"
				in.count("validator_throttled_for_message")
			}
			res = worse(res, x)
		}
	}
	return res
}

func (in *vfC04Inst) Enabled() []string {
	evs := in.vfGWInst.Enabled()
	var out []string
	for _, e := range evs {
		if strings.HasPrefix(e, "vrel:") {
			// a gated validator is released with its configured verdict only
			f := strings.Split(e, ":")
			for _, v := range in.vals {
				if v.Name == f[1] {
					want := v.Verdict
					if want == "" {
						want = "A"
					}
					if f[3] == want {
						out = append(out, e)
					}
				}
			}
			continue
		}
		out = append(out, e)
	}
	return out
}

func (in *vfC04Inst) Apply(ev string, judge bool) string {
	g := in.g
	pre := in.last
	obs := in.vfGWInst.Apply(ev, judge)
	post := in.last
	if g.trace != nil {
		for _, e := range g.trace.take() {
			if e.GetType() == pb.TraceEvent_REJECT_MESSAGE && e.GetRejectMessage().GetReason() == RejectValidationQueueFull {
				rm := e.GetRejectMessage()
				for _, l := range vfSortedKeys(g.msgs) {
					if g.msgID(l) == string(rm.GetMessageID()) {
						if in.refused[l] == nil {
							in.refused[l] = map[string]float64{}
						}
						in.refused[l][vfName(peer.ID(rm.GetReceivedFrom()))]++
					}
				}
			}
		}
	}
	f := strings.Split(ev, ":")
	switch f[0] {
	case "pub":
		if g.conn[f[1]] {
			in.pushed[f[2]] = append(in.pushed[f[2]], f[1])
		}
	case "lpub":
		want := in.expected(true, "local:"+f[2])
		err := g.lpubErr[f[2]]
		label := "local:" + f[2]
		sent := len(vfMsgRecipients(g, label)) > 0
		delivered := false
		for _, d := range g.deliv {
			if d.id == label {
				delivered = true
			}
		}
		in.count("local_publications_judged")
		if want == "A" {
			if err != "" {
				in.bad("c04:local-accept-error", "local publication accepted by every validator but Publish returned %q", err)
			}
			if !delivered {
				in.bad("c04:local-not-delivered", "local publication accepted by every validator was not delivered to the local subscription")
			}
		} else {
			if err == "" {
				in.bad("c04:local-no-error", "local publication fails validation (%s) but Publish returned nil", want)
			}
			if sent {
				in.bad("c04:local-left-node", "local publication fails validation (%s) but was sent to the network", want)
			}
			if delivered {
				in.bad("c04:local-delivered", "local publication fails validation (%s) but was delivered locally", want)
			}
		}
	}
	// remote messages whose validation has completed
	pending := map[string]bool{}
	for _, p := range g.pendingVals() {
		pending[p[strings.IndexByte(p, '|')+1:]] = true
	}
	wants := map[string]string{}
	for _, label := range vfSortedKeys(in.pushed) {
		fw := in.pushed[label]
		if len(fw) == 0 || pending[label] {
			continue
		}
		want := in.expected(false, label)
		if !in.decided[label] {
			in.decided[label] = true
			in.state["decided:"+label] = want
			in.count("verdict_" + want)
		}
		delivered := in.state["delivered:"+label] == "1"
		for _, d := range g.deliv {
			if d.id == label {
				if delivered {
					in.bad("c04:delivered-twice", "message %s was delivered twice", label)
				}
				delivered = true
				in.state["delivered:"+label] = "1"
			}
		}
		forwarded := in.state["forwarded:"+label] == "1"
		if len(vfMsgRecipients(g, label)) > 0 {
			forwarded = true
			in.state["forwarded:"+label] = "1"
		}
		if want == "A" {
			if !delivered {
				in.bad("c04:accepted-not-delivered", "every validator accepted %s but it was not delivered", label)
			}
			if !forwarded && g.conn["c"] && post.Queues["c"] {
				in.bad("c04:accepted-not-forwarded", "every validator accepted %s but it was not forwarded to subscriber c", label)
			}
		} else {
			if delivered {
				in.bad("c04:dropped-but-delivered:"+want, "message %s must be dropped (%s) but was delivered", label, want)
			}
			if forwarded {
				in.bad("c04:dropped-but-forwarded:"+want, "message %s must be dropped (%s) but was forwarded", label, want)
			}
		}
		wants[label] = want
	}
	// penalties (gossipsub with scored topic): Reject penalises every forwarder (once per copy it sent at most),
	// anything else nobody; a peer's counter is the sum over the messages decided so far
	if g.cfg.Scoring {
		lo, hi := map[string]float64{}, map[string]float64{}
		peersSeen := map[string]bool{}
		for label, want := range wants {
			copies := map[string]float64{}
			for _, p := range in.pushed[label] {
				copies[p]++
				peersSeen[p] = true
			}
			if want == "R" {
				for p, n := range copies {
					// a copy refused at the door by a full validation queue was throttled: no penalty for that copy
					// (the refusals are read from the trace); every forwarder with a copy that got in is penalised
					judged := n - in.refused[label][p]
					if judged >= 1 {
						lo[p]++
					}
					hi[p] += judged
				}
			}
		}
		for _, p := range vfSortedKeys(peersSeen) {
			if _, tracked := post.Penalty[p]; !tracked {
				continue
			}
			got := post.Invalid[p] - in.invalid0[p]
			if got < lo[p] || got > hi[p] {
				kind := "R"
				if got > hi[p] {
					kind = "not-R"
				}
				in.bad("c04:penalty:"+kind, "invalid-delivery counter of %s changed by %v, want between %v and %v (decided messages and verdicts: %v, copies pushed: %v)", p, got, lo[p], hi[p], wants, in.pushed)
			}
		}
	}
	_ = pre
	return obs
}

func (in *vfC04Inst) Canon() string {
	var sb strings.Builder
	sb.WriteString(in.vfGWInst.Canon())
	for _, k := range vfSortedKeys(in.pushed) {
		fmt.Fprintf(&sb, "\npushed[%s]=%v", k, in.pushed[k])
	}
	return sb.String()
}

func vfC04Configs(thorough bool) [][]vfValCfg {
	maxK := 3
	verdicts := []string{"A", "R", "I", "U"}
	if thorough {
		maxK = 4
	}
	var out [][]vfValCfg
	var rec func(cur []vfValCfg, k int, topicUsed bool)
	rec = func(cur []vfValCfg, k int, topicUsed bool) {
		if len(cur) > 0 {
			out = append(out, append([]vfValCfg{}, cur...))
		}
		if len(cur) == k || topicUsed {
			return
		}
		for _, place := range []string{"", "t"} {
			for _, inline := range []bool{true, false} {
				for _, v := range verdicts {
					vc := vfValCfg{Name: fmt.Sprintf("V%d", len(cur)+1), Topic: place, Inline: inline, Gated: !inline, Verdict: v}
					rec(append(cur, vc), k, place == "t")
				}
			}
		}
	}
	rec(nil, maxK, false)
	// other out-of-range answers (-1, 3) in every position of a few shapes: "an unknown value" is not Accept
	for _, odd := range []string{"N", "Z"} {
		for _, inline := range []bool{true, false} {
			out = append(out, []vfValCfg{{Name: "V1", Topic: "t", Inline: inline, Gated: !inline, Verdict: odd}})
			out = append(out, []vfValCfg{{Name: "V1", Inline: inline, Gated: !inline, Verdict: odd}, {Name: "V2", Topic: "t", Inline: true, Verdict: "A"}})
			out = append(out, []vfValCfg{{Name: "V1", Inline: true, Verdict: "A"}, {Name: "V2", Topic: "t", Inline: inline, Gated: !inline, Verdict: odd}})
			out = append(out, []vfValCfg{{Name: "V1", Gated: true, Verdict: "A"}, {Name: "V2", Topic: "t", Inline: inline, Gated: !inline, Verdict: odd}})
		}
	}
	// timeouts and throttles on top of a few base shapes
	for _, v := range verdicts[:2] {
		out = append(out, []vfValCfg{{Name: "V1", Topic: "t", Gated: true, Verdict: v, TimeoutMs: 500}})
		out = append(out, []vfValCfg{{Name: "V1", Gated: true, Verdict: "A"}, {Name: "V2", Topic: "t", Gated: true, Verdict: v, TimeoutMs: 500}})
	}
	return out
}

func vfC04Scenarios(thorough bool) []*vfGWScenario {
	var out []*vfGWScenario
	msgs := map[string]vfMsgSpec{"m1": {Topic: "t", Author: "x", Seq: 1, Size: 8}}
	for i, vals := range vfC04Configs(thorough) {
		for _, router := range []string{"gossip"} {
			proto := "v11"
			peers := []vfPeerCfg{{Name: "a", Proto: proto, IP: "10.0.0.1"}, {Name: "b", Proto: proto, IP: "10.0.0.2"}, {Name: "c", Proto: proto, IP: "10.0.0.3"}}
			var alphabet = []string{"pub:a:m1", "pub:b:m1", "lpub:t:p1"}
			depth := 3
			for _, v := range vals {
				if v.Gated && v.TimeoutMs == 0 {
					alphabet = append(alphabet, "vrel:"+v.Name+":m1:"+v.Verdict)
					depth++
				}
				if v.TimeoutMs > 0 {
					alphabet = append(alphabet, "adv:600")
					depth++
				}
			}
			var desc []string
			for _, v := range vals {
				pl := "default"
				if v.Topic != "" {
					pl = "topic"
				}
				md := "async"
				if v.Inline {
					md = "inline"
				}
				to := ""
				if v.TimeoutMs > 0 {
					to = "/timeout"
				}
				desc = append(desc, pl+"/"+md+"/"+v.Verdict+to)
			}
			out = append(out, &vfGWScenario{Name: fmt.Sprintf("%s-%03d[%s]", router, i, strings.Join(desc, ",")),
				Cfg: vfGWCfg{Router: router, Peers: peers, Topics: []string{"t"}, Params: "d2", Scoring: true, ScoreTopics: true, SeenTTL: 3600, Validators: vals,
					Prefix: []string{"conn:a", "conn:b", "conn:c", "sub:a:t", "sub:b:t", "sub:c:t", "join:t"}},
				Alphabet: alphabet, Msgs: msgs, Depth: depth})
		}
	}
	return out
}

// vfC04ThrottleScenarios: two messages and a validator (or the whole asynchronous stage) with room for one: the
// second message finds the slot taken while the first is parked.
func vfC04ThrottleScenarios(thorough bool) []*vfGWScenario {
	var out []*vfGWScenario
	msgs := map[string]vfMsgSpec{"m1": {Topic: "t", Author: "x", Seq: 1, Size: 8}, "m2": {Topic: "t", Author: "x", Seq: 2, Size: 8}}
	peers := []vfPeerCfg{{Name: "a", Proto: "v11", IP: "10.0.0.1"}, {Name: "b", Proto: "v11", IP: "10.0.0.2"}, {Name: "c", Proto: "v11", IP: "10.0.0.3"}}
	type shape struct {
		name   string
		global int
		vals   []vfValCfg
	}
	var shapes []shape
	for _, other := range []string{"", "A", "R", "I", "U"} {
		for _, slow := range []string{"A", "R"} {
			vals := []vfValCfg{{Name: "V2", Topic: "t", Gated: true, Verdict: slow, Throttle: 1}}
			if other != "" {
				vals = append([]vfValCfg{{Name: "V1", Gated: true, Verdict: other}}, vals...)
			}
			shapes = append(shapes, shape{fmt.Sprintf("validator-limit[%s,%s]", other, slow), 0, vals})
			// the same validators, the limit on the whole asynchronous stage instead
			vals2 := append([]vfValCfg{}, vals...)
			vals2[len(vals2)-1].Throttle = 0
			shapes = append(shapes, shape{fmt.Sprintf("global-limit[%s,%s]", other, slow), 1, vals2})
		}
	}
	// a full validation queue: one worker parked in an inline validator, a queue of one
	for _, vd := range []string{"A", "R"} {
		for _, qsize := range []int{1, 2} {
			q3 := map[string]vfMsgSpec{"m1": {Topic: "t", Author: "x", Seq: 1, Size: 8}, "m2": {Topic: "t", Author: "x", Seq: 2, Size: 8}, "m3": {Topic: "t", Author: "x", Seq: 3, Size: 8}}
			vals := []vfValCfg{{Name: "V1", Topic: "t", Inline: true, Gated: true, Verdict: vd}}
			out = append(out, &vfGWScenario{Name: fmt.Sprintf("throttle-queue-%d[%s]", qsize, vd),
				Cfg: vfGWCfg{Router: "gossip", Peers: peers, Topics: []string{"t"}, Params: "d2", Scoring: true, ScoreTopics: true, SeenTTL: 3600, Validators: vals, Workers: 1, ValQueue: qsize, Tracer: true,
					Prefix: []string{"conn:a", "conn:b", "conn:c", "sub:a:t", "sub:b:t", "sub:c:t", "join:t"}},
				Alphabet: []string{"pub:a:m1", "pub:a:m2", "pub:b:m3", "pub:b:m1", "pub:c:m1", "vrel:V1:m1:" + vd, "vrel:V1:m2:" + vd, "vrel:V1:m3:" + vd}, Msgs: q3, Depth: 6})
		}
	}
	// several default validators and two topics with different validators, messages of both topics queued behind
	// a busy worker: each message is judged by the default validators and by ITS topic's validator
	for _, ndef := range []int{1, 2, 3, 4, 5} {
		for _, vts := range [][2]string{{"R", "A"}, {"A", "R"}, {"I", "A"}} {
			m3 := map[string]vfMsgSpec{"m0": {Topic: "u", Author: "x", Seq: 9, Size: 8}, "m1": {Topic: "t", Author: "x", Seq: 1, Size: 8}, "m2": {Topic: "u", Author: "x", Seq: 2, Size: 8}}
			var vals []vfValCfg
			for i := 1; i <= ndef; i++ {
				v := vfValCfg{Name: fmt.Sprintf("D%d", i), Inline: true, Verdict: "A"}
				if i == 1 {
					v.Gated, v.GateOnly = true, []string{"m0"}
				}
				vals = append(vals, v)
			}
			vals = append(vals, vfValCfg{Name: "Vt", Topic: "t", Inline: true, Verdict: vts[0]}, vfValCfg{Name: "Vu", Topic: "u", Inline: true, Verdict: vts[1]})
			out = append(out, &vfGWScenario{Name: fmt.Sprintf("two-topics-%ddefault[%s,%s]", ndef, vts[0], vts[1]),
				Cfg: vfGWCfg{Router: "gossip", Peers: peers, Topics: []string{"t", "u"}, Params: "d2", Scoring: true, ScoreTopics: true, SeenTTL: 3600, Validators: vals, Workers: 1,
					Prefix: []string{"conn:a", "conn:b", "conn:c", "sub:a:t", "sub:b:t", "sub:c:t", "sub:a:u", "sub:b:u", "sub:c:u", "join:t", "join:u"}},
				Alphabet: []string{"pub:a:m0", "pub:a:m1", "pub:b:m2", "pub:b:m1", "vrel:D1:m0:A"}, Msgs: m3, Depth: 5})
		}
	}
	for _, sh := range shapes {
		alphabet := []string{"pub:a:m1", "pub:b:m2", "pub:b:m1", "lpub:t:p1"}
		for _, v := range sh.vals {
			alphabet = append(alphabet, "vrel:"+v.Name+":m1:"+v.Verdict, "vrel:"+v.Name+":m2:"+v.Verdict)
		}
		depth := 5
		if thorough {
			depth = 7
		}
		out = append(out, &vfGWScenario{Name: "throttle-" + sh.name,
			Cfg: vfGWCfg{Router: "gossip", Peers: peers, Topics: []string{"t"}, Params: "d2", Scoring: true, ScoreTopics: true, SeenTTL: 3600, Validators: sh.vals, ValThrottle: sh.global,
				Prefix: []string{"conn:a", "conn:b", "conn:c", "sub:a:t", "sub:b:t", "sub:c:t", "join:t"}},
			Alphabet: alphabet, Msgs: msgs, Depth: depth})
	}
	return out
}

func vfC04Mk(x *vfExec, sc *vfGWScenario) vfInstance {
	base := newVfGWInst(x, sc, nil)
	in := &vfC04Inst{vfGWInst: base, vals: sc.Cfg.Validators, pushed: map[string][]string{}, decided: map[string]bool{}, invalid0: map[string]float64{}, released: map[string]map[string]bool{}, refused: map[string]map[string]float64{}}
	for k, v := range base.last.Invalid {
		in.invalid0[k] = v
	}
	return in
}

func init() {
	vfRegister("C04", &vfCheck{
		run: func(r *vfRun) {
			scs := append(vfC04Scenarios(r.thorough), vfC04ThrottleScenarios(r.thorough)...)
			r.res.Bounds["validator_configurations"] = len(scs)
			vfRunGWScenarios(r, scs, vfC04Mk)
		},
		replay: func(r *vfRun, raw json.RawMessage) { vfReplayGWScenario(r, raw, vfC04Mk) },
	})
}

var _ = sort.Strings
