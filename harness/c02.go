package pubsub

// C02: a message ID is delivered and validated at most once within the seen
// window; retention bounds of the seen cache.
//
// Part A (cache alone): every sequence of Add/Has/advance on the real time
// cache (both strategies, real background sweeper, virtual time) against an
// interval reference: an entry MUST be remembered until ref+ttl, MUST be gone
// after ref+ttl+sweep, in between either answer is allowed and the model
// follows the implementation.
// Part B (node): copies of one message from three peers, a local publish with
// the same ID (content-hash ID function), counting validators (inline /
// asynchronous and gated, 1-2 workers), time advances across the TTL and the
// sweep, both strategies.
// Part C (threads, sched variant): see sched_c02.go.

import (
	"encoding/json"
	"fmt"
	"os"
	"strings"
	"testing/synctest"
	"time"

	"github.com/libp2p/go-libp2p-pubsub/timecache"
)

const vfTCSweep = time.Minute // timecache.backgroundSweepInterval

// ---------------------------------------------------------------- part A

type vfTCInst struct {
	x        *vfExec
	tc       timecache.TimeCache
	strategy timecache.Strategy
	ttl      time.Duration
	ref      map[string]time.Time // reference: last qualifying activity of entries that may be present
	t0       time.Time
}

// vfTCNew builds the cache and lets phaseMs of virtual time pass first, so that bounded histories also reach the
// neighbourhood of a sweeper tick (the sweeper ticks every minute from creation).
func vfTCNew(x *vfExec, st timecache.Strategy, phaseMs int) *vfTCInst {
	in := &vfTCInst{x: x, tc: timecache.NewTimeCacheWithStrategy(st, 10*time.Second), strategy: st, ttl: 10 * time.Second, ref: map[string]time.Time{}, t0: time.Now()}
	if phaseMs > 0 {
		time.Sleep(time.Duration(phaseMs) * time.Millisecond)
		synctest.Wait()
	}
	return in
}

func (in *vfTCInst) Enabled() []string {
	return []string{"add:x", "add:y", "has:x", "has:y", "adv:200", "adv:9900", "adv:10000", "adv:60000", "adv:70100"}
}

func (in *vfTCInst) Apply(ev string, judge bool) string {
	f := strings.Split(ev, ":")
	now := time.Now()
	bad := func(fp, format string, a ...any) {
		in.x.violation("c02tc:"+fp, fmt.Sprintf("strategy=%d ttl=%v after %s at +%v: ", in.strategy, in.ttl, ev, now.Sub(in.t0))+fmt.Sprintf(format, a...))
	}
	// three-valued presence of key k right now
	presence := func(k string) string {
		r, ok := in.ref[k]
		if !ok {
			return "absent"
		}
		age := now.Sub(r)
		switch {
		case age < in.ttl:
			return "must"
		case age > in.ttl+vfTCSweep:
			return "gone"
		}
		return "may"
	}
	switch f[0] {
	case "adv":
		var ms int
		fmt.Sscanf(f[1], "%d", &ms)
		time.Sleep(time.Duration(ms) * time.Millisecond)
		synctest.Wait()
		return ""
	case "has":
		k := f[1]
		got := in.tc.Has(k)
		switch presence(k) {
		case "absent", "gone":
			if got {
				bad("has-forgotten", "Has(%s)=true but the entry must have been forgotten (or was never added)", k)
			}
			delete(in.ref, k)
		case "must":
			if !got {
				bad("has-too-early", "Has(%s)=false but the entry must still be remembered (%v since the last qualifying activity)", k, now.Sub(in.ref[k]))
				delete(in.ref, k)
			}
		case "may":
			if !got {
				delete(in.ref, k)
			}
		}
		if got && in.strategy == timecache.Strategy_LastSeen {
			if _, ok := in.ref[k]; ok {
				in.ref[k] = now
			}
		}
		return fmt.Sprint(got)
	case "add":
		k := f[1]
		got := in.tc.Add(k) // true = newly added
		switch presence(k) {
		case "absent", "gone":
			if !got {
				bad("add-not-new", "Add(%s)=false but the entry must have been forgotten (or was never added)", k)
			}
			in.ref[k] = now
		case "must":
			if got {
				bad("add-new-too-early", "Add(%s)=true (newly added) but the entry must still be remembered (%v since the last qualifying activity)", k, now.Sub(in.ref[k]))
				in.ref[k] = now
			} else if in.strategy == timecache.Strategy_LastSeen {
				in.ref[k] = now
			}
		case "may":
			if got || in.strategy == timecache.Strategy_LastSeen {
				in.ref[k] = now
			}
		}
		return fmt.Sprint(got)
	}
	return ""
}

func (in *vfTCInst) Canon() string {
	now := time.Now()
	var l []string
	for k, r := range in.ref {
		l = append(l, fmt.Sprintf("%s:%d", k, now.Sub(r)/time.Millisecond))
	}
	// phase of the sweeper (it ticks every minute from creation)
	return fmt.Sprintf("%v phase=%d impl=%s", vfSortStrings(l), now.Sub(in.t0)%vfTCSweep/time.Millisecond, vfDump(in.tc, now, nil))
}

func vfSortStrings(l []string) []string {
	out := append([]string{}, l...)
	for i := range out {
		for j := i + 1; j < len(out); j++ {
			if out[j] < out[i] {
				out[i], out[j] = out[j], out[i]
			}
		}
	}
	return out
}

func (in *vfTCInst) Finish(bool) string {
	in.tc.Done()
	synctest.Wait()
	return ""
}

// ---------------------------------------------------------------- part B

type vfC02Inst struct {
	*vfGWInst
	ttl    time.Duration
	last   bool                 // last-seen strategy
	ref    map[string]time.Time // message label -> last qualifying activity
	delivs map[string]int       // deliveries since the entry was (re)created
	vcalls map[string]int
	epoch  map[string]int
	stale  map[string]bool
}

func (in *vfC02Inst) Apply(ev string, judge bool) string {
	g := in.g
	f := strings.Split(ev, ":")
	now := time.Now()
	label := ""
	switch f[0] {
	case "pub", "pubdup":
		if g.conn[f[1]] {
			label = f[2]
		}
	case "lpub", "lpubgo":
		label = f[2] // with the content-hash ID function a local publish of the same data has the same ID
	}
	calls := func() int {
		n := 0
		g.vmu.Lock()
		for k, c := range g.valCalls {
			if strings.HasSuffix(k, "|"+label) || strings.HasSuffix(k, "|local:"+label) {
				n += c
			}
		}
		g.vmu.Unlock()
		return n
	}
	preCalls := calls()
	obs := in.vfGWInst.Apply(ev, judge)
	postCalls := calls()
	nvals := len(g.cfg.Validators)
	if label != "" {
		newCalls := postCalls - preCalls
		treatedFresh := newCalls > 0
		for _, d := range g.deliv {
			if d.id == label || d.id == "local:"+label {
				treatedFresh = true
			}
		}
		r, marked := in.ref[label]
		idle := len(g.pendingVals()) == 0
		switch {
		case treatedFresh && marked && now.Sub(r) < in.ttl:
			in.bad("c02:validated-twice", "copy of %s arrived %v after the last qualifying activity (ttl %v) but validators were invoked again / it was delivered again", label, now.Sub(r), in.ttl)
			in.epochReset(label, now)
		case treatedFresh:
			if marked {
				in.count("copies_after_forgetting")
			}
			in.epochReset(label, now)
		case marked && now.Sub(r) > in.ttl+vfTCSweep && idle:
			in.bad("c02:not-forgotten", "copy of %s arrived %v after the last qualifying activity (ttl %v + sweep %v) but was still treated as seen", label, now.Sub(r), in.ttl, vfTCSweep)
		case marked:
			if now.Sub(r) < in.ttl {
				in.count("copies_inside_window")
			} else {
				in.count("copies_in_grey_zone")
			}
			if in.last {
				in.ref[label] = now // a sighting of a remembered ID extends its life under last-seen
			}
		default:
			in.count("copies_parked_before_being_marked_seen")
		}
		if newCalls > nvals {
			in.bad("c02:validator-invoked-twice", "one copy of %s invoked the validators %d times (%d validators)", label, newCalls, nvals)
		}
	}
	// deliveries: at most one per subscription per epoch
	for _, d := range g.deliv {
		l := strings.TrimPrefix(d.id, "local:")
		if f[0] == "vrel" && in.stale[l] {
			// a copy whose validation started in an earlier seen epoch (it outlived TTL + sweep inside the
			// pipeline): its delivery belongs to that epoch and is counted, not judged
			in.count("copy_outlived_seen_window_in_validation")
			continue
		}
		in.delivs[d.sub+"|"+l]++
		if in.delivs[d.sub+"|"+l] > 1 {
			in.bad("c02:delivered-twice", "subscription %s received message %s %d times within the seen window", d.sub, l, in.delivs[d.sub+"|"+l])
		}
		in.count("deliveries")
	}
	return obs
}

func (in *vfC02Inst) epochReset(label string, now time.Time) {
	for _, p := range in.g.pendingVals() {
		if strings.HasSuffix(p, "|"+label) {
			in.stale[label] = true
		}
	}
	in.ref[label] = now
	in.epoch[label]++
	for k := range in.delivs {
		if strings.HasSuffix(k, "|"+label) {
			delete(in.delivs, k)
		}
	}
}

func (in *vfC02Inst) Canon() string {
	now := time.Now()
	var l []string
	for k, r := range in.ref {
		l = append(l, fmt.Sprintf("%s:%d", k, now.Sub(r)/time.Millisecond))
	}
	var dl []string
	for k, n := range in.delivs {
		dl = append(dl, fmt.Sprintf("%s=%d", k, n))
	}
	return in.vfGWInst.Canon() + fmt.Sprintf("\nref=%v delivs=%v stale=%v phase=%d", vfSortStrings(l), vfSortStrings(dl), vfKeys(in.stale), now.Sub(in.g.t0)%vfTCSweep/time.Millisecond)
}

func vfC02Scenarios(thorough bool) []*vfGWScenario {
	var out []*vfGWScenario
	d := 4
	if thorough {
		d = 6
	}
	msgs := map[string]vfMsgSpec{"m1": {Topic: "t", Author: "", Seq: 0, Size: 4}}
	peers := []vfPeerCfg{{Name: "a", Proto: "fs", IP: "10.0.0.1"}, {Name: "b", Proto: "fs", IP: "10.0.0.2"}, {Name: "c", Proto: "fs", IP: "10.0.0.3"}}
	prefix := []string{"conn:a", "conn:b", "conn:c", "sub:c:t", "join:t"}
	for _, strategy := range []string{"first", "last"} {
		for _, vmode := range []string{"none", "inline", "async", "two"} {
			for _, workers := range []int{1, 2} {
				if workers == 2 && vmode == "none" {
					continue
				}
				var vals []vfValCfg
				alphabet := []string{"pub:a:m1", "pub:b:m1", "pub:c:m1", "pubdup:a:m1", "lpub:t:m1", "adv:1900", "adv:200", "adv:62000"}
				switch vmode {
				case "inline":
					vals = []vfValCfg{{Name: "V", Topic: "t", Inline: true, Verdict: "A"}}
				case "async":
					vals = []vfValCfg{{Name: "V", Topic: "t", Gated: true, Verdict: "A"}}
					alphabet = append(alphabet, "vrel:V:m1:A", "vrel:V:m1:I")
				case "two":
					vals = []vfValCfg{{Name: "D", Gated: true, Verdict: "A"}, {Name: "V", Topic: "t", Gated: true, Verdict: "A"}}
					alphabet = append(alphabet, "vrel:V:m1:A", "vrel:D:m1:A")
				}
				out = append(out, &vfGWScenario{Name: fmt.Sprintf("%s-%s-w%d", strategy, vmode, workers),
					Cfg:      vfGWCfg{Router: "flood", Peers: peers, Topics: []string{"t"}, SeenTTL: 2, Strategy: strategy, IDFn: "content", Validators: vals, Workers: workers, Prefix: prefix},
					Alphabet: alphabet, Msgs: msgs, Depth: d, MaxSubs: 2})
				if workers == 1 && (vmode == "none" || vmode == "async") {
					// the same with the ID function configured for the topic instead of node-wide
					out = append(out, &vfGWScenario{Name: fmt.Sprintf("%s-%s-w%d-topicid", strategy, vmode, workers),
						Cfg:      vfGWCfg{Router: "flood", Peers: peers, Topics: []string{"t"}, SeenTTL: 2, Strategy: strategy, IDFn: "topic-content", Validators: vals, Workers: workers, Prefix: prefix},
						Alphabet: alphabet, Msgs: msgs, Depth: d, MaxSubs: 2})
				}
			}
		}
	}
	// "even when the same ID is published locally at the same time": the local publication is in progress (parked
	// in its validator, from its own goroutine) while remote copies of the same ID arrive, and the other way round
	for _, strategy := range []string{"first", "last"} {
		for _, inline := range []bool{true, false} {
			name := strategy + "-local-in-progress-async"
			if inline {
				name = strategy + "-local-in-progress-inline"
			}
			out = append(out, &vfGWScenario{Name: name,
				Cfg: vfGWCfg{Router: "flood", Peers: peers, Topics: []string{"t"}, SeenTTL: 2, Strategy: strategy, IDFn: "content", Workers: 2, Prefix: prefix, Extra: map[string]string{"park_local": "1"},
					Validators: []vfValCfg{{Name: "V", Topic: "t", Inline: inline, Gated: true, Verdict: "A"}}},
				Alphabet: []string{"lpubgo:t:m1", "pub:a:m1", "pub:b:m1", "vrel:V:m1:A", "vrel:V:m1:I", "adv:1900"}, Msgs: msgs, Depth: d + 1, MaxSubs: 2})
		}
	}
	// the race the markSeen gate exists for: a parked inline validator keeps the single worker busy, so
	// copies of m1 queue up behind it after passing the seen check but before being marked seen
	for _, strategy := range []string{"first", "last"} {
		m2 := map[string]vfMsgSpec{"m1": {Topic: "t", Size: 4}, "m0": {Topic: "t", Size: 4}}
		out = append(out, &vfGWScenario{Name: strategy + "-queue-w1",
			Cfg: vfGWCfg{Router: "flood", Peers: peers, Topics: []string{"t"}, SeenTTL: 2, Strategy: strategy, IDFn: "content", Workers: 1, Prefix: prefix,
				Validators: []vfValCfg{{Name: "V", Topic: "t", Inline: true, Gated: true, GateOnly: []string{"m0"}, Verdict: "A"}}},
			Alphabet: []string{"pub:a:m0", "pub:a:m1", "pub:b:m1", "pubdup:c:m1", "lpub:t:m1", "vrel:V:m0:A", "adv:1900"}, Msgs: m2, Depth: d + 1, MaxSubs: 2})
	}
	return out
}

func vfC02Mk(x *vfExec, sc *vfGWScenario) vfInstance {
	base := newVfGWInst(x, sc, nil)
	return &vfC02Inst{vfGWInst: base, ttl: time.Duration(sc.Cfg.SeenTTL) * time.Second, last: sc.Cfg.Strategy == "last", ref: map[string]time.Time{}, delivs: map[string]int{}, vcalls: map[string]int{}, epoch: map[string]int{}, stale: map[string]bool{}}
}

func init() {
	vfRegister("C02", &vfCheck{
		run: func(r *vfRun) {
			if os.Getenv("VF_VARIANT") == "sched" {
				vfC02SchedRun(r)
				return
			}
			depth := 6
			if r.thorough {
				depth = 8
			}
			for _, st := range []timecache.Strategy{timecache.Strategy_FirstSeen, timecache.Strategy_LastSeen} {
				for _, phase := range []int{0, 49000, 59500} {
					if _, ok := r.nextCase(); ok {
						st, phase := st, phase
						vfExplore(r, &vfExploreCfg{Scenario: map[string]any{"part": "cache", "strategy": int(st), "phase": phase}, Name: fmt.Sprintf("cache-strategy%d-phase%d", st, phase), MaxDepth: depth, Bubble: true,
							New: func(x *vfExec) vfInstance { return vfTCNew(x, st, phase) }})
					}
				}
			}
			// "at most once per subscription" through the batch API: one MessageBatch reused across PublishBatch calls
			// while other goroutines add to it and the event loop is busy or free (the explorer of c19batch.go, judged
			// here on deliveries per ID only)
			if _, ok := r.nextCase(); ok {
				vfExplore(r, vfBatchCfg(r.thorough, "c02batch"))
			}
			vfRunGWScenarios(r, vfC02Scenarios(r.thorough), vfC02Mk)
		},
		replay: func(r *vfRun, raw json.RawMessage) {
			var c struct {
				Variant  string `json:"variant"`
				Scenario struct {
					Part     string `json:"part"`
					Strategy int    `json:"strategy"`
					Phase    int    `json:"phase"`
				} `json:"scenario"`
			}
			json.Unmarshal(raw, &c)
			switch {
			case c.Variant == "sched":
				vfC02SchedReplay(r, raw)
			case c.Scenario.Part == "batch":
				vfReplayCase(r, vfBatchCfg(true, "c02batch"), raw)
			case c.Scenario.Part == "cache":
				vfReplayCase(r, &vfExploreCfg{Name: "cache", Bubble: true, New: func(x *vfExec) vfInstance {
					return vfTCNew(x, timecache.Strategy(c.Scenario.Strategy), c.Scenario.Phase)
				}}, raw)
			default:
				vfReplayGWScenario(r, raw, vfC02Mk)
			}
		},
	})
}
