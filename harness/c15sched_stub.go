//go:build !vfsched

package pubsub

import "encoding/json"

func vfC15SchedRun(r *vfRun)                         { r.harnessError("sched variant not built") }
func vfC15SchedReplay(r *vfRun, raw json.RawMessage) {}
