package pubsub

// C07: mesh maintenance keeps every joined topic's mesh within its invariants.
// Oracle clause by clause (DESIGN.md §5 C07 and §5.1), evaluated on the in-loop
// snapshots before/after every event and on the wire log of the step.

import (
	"encoding/json"
	"fmt"
	"sort"
	"strings"
	"time"
)

func vfMeshCapable(proto string) bool {
	switch proto {
	case string(GossipSubID_v10), string(GossipSubID_v11), string(GossipSubID_v12), string(GossipSubID_v13):
		return true
	}
	return false
}

func vfC07Oracle(in *vfGWInst, evFull string, pre, post *vfSnap) {
	g := in.g
	if !pre.OK || !post.OK || g.n.gs == nil {
		return
	}
	ev, _ := vfSplitChoice(evFull)
	f := strings.Split(ev, ":")
	params := g.n.gs.params
	// ---- state invariants after every event
	joined := map[string]bool{}
	for t, c := range post.MySubs {
		if c > 0 {
			joined[t] = true
		}
	}
	for t, c := range post.MyRelays {
		if c > 0 {
			joined[t] = true
		}
	}
	// "backed-off" has to mean the longest backoff anybody started: a running backoff is only ever extended, never cut
	// short by a later, shorter one (the table is what every graft site consults)
	for t, m := range pre.Backoff {
		for p, rem := range m {
			left := rem - (post.Now - pre.Now)
			if left <= time.Millisecond {
				continue
			}
			if now, ok := post.Backoff[t][p]; !ok || now < left-time.Millisecond {
				in.bad("c07:backoff-shortened", "the backoff of %s for %s had %v left to run; after this step it has %v (present: %v)", p, t, left, now, ok)
			}
			in.count("running_backoffs_followed")
		}
	}
	for t := range post.Mesh {
		if !joined[t] {
			in.bad("c07:mesh-without-join", "a mesh exists for topic %s which is not joined", t)
		}
		if _, ok := post.Fanout[t]; ok {
			in.bad("c07:fanout-for-joined", "fanout state exists for joined topic %s", t)
		}
		for p := range post.Mesh[t] {
			// (a peer the node has no outbound stream to yet is not in the router's peer table but can have grafted
			// itself in over its own stream: it is a connected peer as long as its connection is up)
			if _, ok := post.Peers[p]; !ok && !g.conn[p] {
				in.bad("c07:mesh-not-connected", "mesh[%s] contains %s which is not a connected peer (no router entry, no connection)", t, p)
			}
			// "no backed-off peer is ever added", as a state invariant: whoever is in the mesh has no running backoff
			// (a peer pruned and re-added within one heartbeat is a member before and after, but not innocent)
			if rem, ok := post.Backoff[t][p]; ok && rem > 0 {
				in.bad("c07:mesh-member-backed-off", "%s is in mesh[%s] with %v of backoff still to run", p, t, rem)
			}
		}
	}
	for t := range joined {
		if _, ok := post.Mesh[t]; !ok {
			in.bad("c07:join-without-mesh", "topic %s is joined but has no mesh", t)
		}
	}
	for t := range post.Fanout {
		if joined[t] {
			in.bad("c07:fanout-for-joined", "fanout state exists for joined topic %s", t)
		}
	}
	// ---- GRAFTs / PRUNEs still owed from earlier steps (they could not be written then: full queue, blocked write):
	// until they reach the wire they have to be somewhere -- the retry buffer, the queue, a blocked write
	for _, k := range vfSortedKeys(in.state) {
		if !strings.HasPrefix(k, "owe:") {
			continue
		}
		kf := strings.Split(k, ":") // owe:KIND:peer:topic
		kind, p, t := kf[1], kf[2], kf[3]
		_, conn := post.Peers[p]
		inMesh := post.Mesh[t][p]
		onWire := false
		for _, r := range g.sentTo(p) {
			if (kind == "GRAFT" && vfHasGraft(r, t)) || (kind == "PRUNE" && vfGetPrune(r, t) != nil) {
				onWire = true
			}
		}
		switch {
		case onWire, !conn, !g.conn[p], kind == "GRAFT" && !inMesh, kind == "PRUNE" && inMesh:
			delete(in.state, k) // delivered, moot (the peer is gone) or superseded
		case strings.Contains(post.Control[p], kind+"["+t), g.gated[p], post.QueueLen[p] > 0, !g.fakes[p].outAlive():
			in.count("owed_control_still_in_flight")
		default:
			in.bad("c07:owed-"+strings.ToLower(kind)+"-lost", "the %s for %s owed to %s since an earlier step is neither on the wire nor waiting anywhere (retry buffer %q, queue length %d)", kind, t, p, post.Control[p], post.QueueLen[p])
			delete(in.state, k)
		}
	}
	// ---- additions / removals
	topics := map[string]bool{}
	for t := range pre.Mesh {
		topics[t] = true
	}
	for t := range post.Mesh {
		topics[t] = true
	}
	for t := range topics {
		added := vfDiffSet(post.Mesh[t], pre.Mesh[t])
		removed := vfDiffSet(pre.Mesh[t], post.Mesh[t])
		for _, p := range added {
			in.count("mesh_additions")
			remoteInit := f[0] == "graft" && f[1] == p && f[2] == t
			if post.Direct[p] {
				in.bad("c07:added-direct", "direct peer %s was added to mesh[%s]", p, t)
			}
			// (time may pass inside the step: only a backoff that is still running at its end is certainly violated)
			if rem, ok := pre.Backoff[t][p]; ok && rem-(post.Now-pre.Now) > 0 {
				in.bad("c07:added-backedoff", "%s was added to mesh[%s] with %v of backoff remaining", p, t, rem-(post.Now-pre.Now))
			}
			if g.cfg.Scoring && pre.Score[p] < 0 && post.Score[p] < 0 {
				in.bad("c07:added-negative", "%s (score %v) was added to mesh[%s]", p, post.Score[p], t)
			}
			if !remoteInit {
				// self-initiated: GRAFT must be on the wire or pending for retry
				sent := false
				for _, r := range g.sentTo(p) {
					if vfHasGraft(r, t) {
						sent = true
					}
				}
				if !sent {
					in.state["owe:GRAFT:"+p+":"+t] = "1"
				}
				if !sent && strings.Contains(post.Control[p], "GRAFT["+t) {
					sent = true
					in.count("graft_pending_retry")
				}
				if !sent && post.Queues[p] && !g.gated[p] {
					in.bad("c07:no-graft", "%s was added to mesh[%s] on the node's initiative but no GRAFT was sent or queued for retry", p, t)
				}
			}
		}
		for _, p := range removed {
			in.count("mesh_removals")
			if _, still := post.Peers[p]; !still {
				continue
			}
			if f[0] == "prune" && f[1] == p && f[2] == t {
				continue // removed at the peer's request
			}
			sent := false
			for _, r := range g.sentTo(p) {
				if vfGetPrune(r, t) != nil {
					sent = true
				}
			}
			if !sent {
				in.state["owe:PRUNE:"+p+":"+t] = "1"
			}
			if !sent && strings.Contains(post.Control[p], "PRUNE["+t) {
				sent = true
			}
			if !sent && post.Queues[p] && !g.gated[p] {
				in.bad("c07:no-prune", "%s (still connected) was removed from mesh[%s] but no PRUNE was sent or queued for retry", p, t)
			}
		}
	}
	// ---- heartbeat clauses
	if f[0] != "hb" || post.Ticks != pre.Ticks+1 {
		return
	}
	in.count("heartbeats_judged")
	for t, preMesh := range pre.Mesh {
		postMesh, ok := post.Mesh[t]
		if !ok {
			continue
		}
		for p := range postMesh {
			if g.cfg.Scoring && post.Score[p] < 0 {
				in.bad("c07:negative-after-hb", "mesh[%s] still contains %s with score %v after a heartbeat", t, p, post.Score[p])
			}
		}
		base := map[string]bool{}
		for p := range preMesh {
			if !(g.cfg.Scoring && post.Score[p] < 0) {
				base[p] = true
			} else {
				in.count("hb_negative_prunes")
			}
		}
		// candidates
		strict, loose := map[string]bool{}, map[string]bool{}
		for p := range pre.Topics[t] {
			if base[p] || !vfMeshCapable(pre.Peers[p]) || pre.Direct[p] || (g.cfg.Scoring && post.Score[p] < 0) {
				continue
			}
			rem, has := pre.Backoff[t][p]
			if !has {
				strict[p] = true
				loose[p] = true
			} else if rem <= 0 {
				loose[p] = true
			}
		}
		kept := map[string]bool{}
		for p := range postMesh {
			if base[p] {
				kept[p] = true
			}
		}
		newcomers := vfDiffSet(postMesh, base)
		for _, p := range newcomers {
			if !loose[p] {
				in.bad("c07:hb-added-ineligible", "heartbeat added %s to mesh[%s] although it is not an eligible candidate (direct/backed-off/negative/not in topic/not mesh-capable)", p, t)
			}
		}
		switch {
		case len(base) < params.Dlo:
			in.count("hb_undersubscribed")
			want := params.D
			if len(base)+len(strict) < want {
				want = len(base) + len(strict)
			}
			if len(postMesh) < want {
				in.bad("c07:hb-undergrowth", "mesh[%s] had %d (<Dlo=%d) members and %d eligible candidates, but has only %d after the heartbeat (want >= %d)", t, len(base), params.Dlo, len(strict), len(postMesh), want)
			}
			if len(kept) != len(base) {
				in.bad("c07:hb-lost-member", "heartbeat removed a non-negative member from under-subscribed mesh[%s]: before %v after %v", t, vfKeys(base), vfKeys(postMesh))
			}
			if len(newcomers) > 0 {
				in.count("hb_grafted")
			}
		case len(base) >= params.Dhi:
			in.count("hb_oversubscribed")
			if len(kept) != params.D {
				in.bad("c07:hb-overcut", "mesh[%s] had %d (>=Dhi=%d) members; %d of them survive the heartbeat, want exactly D=%d", t, len(base), params.Dhi, len(kept), params.D)
			}
			// outbound quota
			outAvail, outKept := 0, 0
			for p := range base {
				if pre.Outbound[p] {
					outAvail++
				}
			}
			for p := range kept {
				if pre.Outbound[p] {
					outKept++
				}
			}
			needOut := params.Dout
			if outAvail < needOut {
				needOut = outAvail
			}
			if outKept < needOut {
				in.bad("c07:hb-outbound-quota", "after cutting mesh[%s] only %d outbound members survive; %d were available and Dout=%d", t, outKept, outAvail, params.Dout)
			}
			if outAvail > 0 && params.Dout > 0 {
				in.count("hb_outbound_quota_exercised")
			}
			// Dscore best
			if params.Dscore > 0 && params.Dscore+params.Dout <= params.D {
				var sc []float64
				for p := range base {
					sc = append(sc, post.Score[p])
				}
				sort.Sort(sort.Reverse(sort.Float64Slice(sc)))
				if len(sc) >= params.Dscore {
					thr := sc[params.Dscore-1]
					for p := range base {
						if post.Score[p] > thr && !kept[p] {
							in.bad("c07:hb-dscore", "%s (score %v, strictly above the Dscore-th best %v) was cut from mesh[%s]", p, post.Score[p], thr, t)
						}
					}
				}
			}
		default:
			if len(kept) != len(base) {
				in.bad("c07:hb-lost-member", "heartbeat removed a non-negative member from mesh[%s] of size %d (Dlo=%d Dhi=%d): before %v after %v", t, len(base), params.Dlo, params.Dhi, vfKeys(base), vfKeys(postMesh))
			}
		}
		// bounded additions beyond D: outbound top-up and opportunistic grafting only
		extra := params.Dout + params.OpportunisticGraftPeers
		bound := params.D
		if len(base) > bound && len(base) < params.Dhi {
			bound = len(base)
		}
		if len(postMesh) > bound+extra {
			in.bad("c07:hb-overgrowth", "mesh[%s] has %d members after the heartbeat (bound %d + %d additions)", t, len(postMesh), bound, extra)
		}
	}
}

func vfC07Scenarios(thorough bool) []*vfGWScenario {
	var out []*vfGWScenario
	mk := func(name, params string, peers []vfPeerCfg, prefix, alphabet []string, depth int) {
		out = append(out, &vfGWScenario{Name: name, Cfg: vfGWCfg{Router: "gossip", Peers: peers, Topics: []string{"t"}, Params: params, Scoring: true, Prefix: prefix},
			Alphabet: alphabet, Depth: depth, DevKinds: []string{"peers"}, DevEvents: []string{"hb", "join"}, DevMax: 6})
	}
	p4 := []vfPeerCfg{{Name: "a", Proto: "v11", IP: "10.0.0.1"}, {Name: "b", Proto: "v12", IP: "10.0.0.2", Outbound: true}, {Name: "c", Proto: "v10", IP: "10.0.0.3"}, {Name: "d", Proto: "fs", IP: "10.0.0.4"}}
	connAll := func(ps []vfPeerCfg, sub bool) []string {
		var l []string
		for _, p := range ps {
			l = append(l, "conn:"+p.Name)
		}
		if sub {
			for _, p := range ps {
				l = append(l, "sub:"+p.Name+":t")
			}
		}
		return l
	}
	d := 4
	if thorough {
		d = 6
	}
	// S1: growth from scratch, mixed protocols, churn of one peer
	for _, ps := range []string{"d2", "d2tight", "zero"} {
		mk("grow-"+ps, ps, p4, connAll(p4, true),
			[]string{"join:t", "leave:t", "hb", "graft:a:t", "prune:a:t", "prune:b:t:8", "score:a:-1", "score:a:0", "score:b:-1", "score:b:2", "disc:a", "conn:a", "sub:a:t", "unsub:b:t", "adv:2500", "lpub:t:p1"}, d)
	}
	// S2: over-subscription from a seeded full mesh
	p6 := []vfPeerCfg{{Name: "a", Proto: "v11", IP: "10.0.0.1"}, {Name: "b", Proto: "v11", IP: "10.0.0.2", Outbound: true}, {Name: "c", Proto: "v12", IP: "10.0.0.3"},
		{Name: "d", Proto: "v11", IP: "10.0.0.4", Outbound: true}, {Name: "e", Proto: "v11", IP: "10.0.0.5"}, {Name: "f", Proto: "v12", IP: "10.0.0.6"}}
	graftAll := func(ps []vfPeerCfg) []string {
		l := append(connAll(ps, true), "join:t")
		for _, p := range ps {
			l = append(l, "graft:"+p.Name+":t")
		}
		return l
	}
	for _, ps := range []string{"d2", "d4", "d4score", "d3"} {
		// outbound peers are accepted beyond Dhi, inbound ones only below it: order the grafts accordingly
		mk("over-"+ps, ps, p6, graftAll(p6),
			[]string{"hb", "score:a:2", "score:b:1", "score:c:1", "score:e:-1", "score:f:2", "graft:a:t", "graft:c:t", "prune:d:t", "leave:t", "join:t", "adv:5000"}, d)
	}
	// S3: opportunistic grafting every tick
	mk("oppgraft", "d2og", p6[:5], append(connAll(p6[:5], true), "join:t"),
		[]string{"hb", "score:a:2", "score:c:2", "score:e:2", "score:b:-1", "graft:e:t", "prune:a:t", "adv:5000"}, d)
	// S2b: the outbound quota when the cut's selection holds some, but too few, outbound members (Dout = 2)
	{
		p8 := []vfPeerCfg{{Name: "a", Proto: "v11", IP: "10.0.0.1"}, {Name: "b", Proto: "v11", IP: "10.0.0.2"}, {Name: "c", Proto: "v12", IP: "10.0.0.3"}, {Name: "d", Proto: "v11", IP: "10.0.0.4"},
			{Name: "e", Proto: "v11", IP: "10.0.0.5"}, {Name: "f", Proto: "v12", IP: "10.0.0.6", Outbound: true}, {Name: "g", Proto: "v11", IP: "10.0.0.7", Outbound: true}, {Name: "h", Proto: "v11", IP: "10.0.0.8", Outbound: true}}
		mk("over-dout2", "d5out2", p8, graftAll(p8), []string{"hb", "score:a:2", "score:f:1", "score:g:-1", "prune:h:t", "graft:h:t", "adv:5000"}, d)
	}
	// S2c: GRAFTs and PRUNEs that cannot be queued (a one-slot queue behind a blocked write) and are retried: they
	// stay owed until they reach the wire
	{
		p3 := []vfPeerCfg{{Name: "a", Proto: "v11", IP: "10.0.0.1"}, {Name: "b", Proto: "v12", IP: "10.0.0.2"}, {Name: "c", Proto: "v11", IP: "10.0.0.3"}}
		mk("retry", "d2", p3, connAll(p3, true), []string{"gate:a", "ungate:a", "join:t", "leave:t", "hb", "graft:b:t", "prune:b:t", "score:a:-1", "score:a:0", "adv:2100"}, d+1)
		out[len(out)-1].Cfg.QueueSize = 1
	}
	// S3a: a heartbeat that cuts an over-subscribed mesh AND grafts opportunistically (every tick), from a state
	// without any backoff entry for the topic; distinct scores below the opportunistic threshold, so that which
	// members survive the cut (the explorer's shuffle) decides who is above the median afterwards
	p6o := append([]vfPeerCfg{}, p6...)
	p6o[4].Outbound, p6o[5].Outbound = true, true // e and f are accepted beyond Dhi: nobody is refused, no backoff entry yet
	mk("over-oppgraft", "d4og", p6o, append(graftAll(p6o), "score:a:0.8", "score:b:0.6", "score:c:0.4", "score:d:0.2", "score:e:0.1"),
		[]string{"hb", "score:f:0.7", "score:a:-1", "prune:b:t", "graft:b:t", "adv:5000"}, d)
	// S3a': every source of a backoff for one peer, in every order: the peer's own PRUNEs with a long and a short stated
	// period, our heartbeat's prune of a negatively scored member, refused GRAFTs, leaving the topic
	mk("backoff-sources", "d2", p4, append(connAll(p4, true), "join:t"),
		[]string{"prune:a:t:60", "prune:a:t:1", "graft:a:t", "hb", "leave:t", "join:t", "score:a:-1", "score:a:0", "adv:2100"}, d+1)
	// S3a'': a peer that grafts itself in over its own stream while the node's stream to it is still being opened, loses
	// its inbound stream, and whose outbound stream then fails or whose connection goes: it must not stay a member
	{
		pq := []vfPeerCfg{{Name: "p", Proto: "v12", IP: "10.0.0.1"}, {Name: "q", Proto: "v12", IP: "10.0.0.2"}}
		mk("queueless-member", "d2", pq, []string{"conn:q", "sub:q:t", "join:t", "hold:p", "conn:p", "sub:p:t", "graft:p:t"},
			[]string{"inclose:p", "failstream:p", "release:p", "disc:p", "conn:p", "graft:p:t", "hb"}, d)
	}
	// S3b: zero periods for opportunistic grafting / direct connect (accepted by parameter validation)
	for _, ps := range []string{"d2og0", "d2dc0"} {
		mk("zero-period-"+ps, ps, p4, connAll(p4, true), []string{"join:t", "leave:t", "hb", "graft:a:t", "prune:a:t", "score:a:-1", "score:b:2"}, d-1)
	}
	// S3c: two joined topics sharing peers: one heartbeat prunes a peer from one mesh and grafts it into the other
	{
		p3 := []vfPeerCfg{{Name: "a", Proto: "v11", IP: "10.0.0.1"}, {Name: "b", Proto: "v12", IP: "10.0.0.2"}, {Name: "c", Proto: "v11", IP: "10.0.0.3"}}
		pre := append(connAll(p3, true), "join:t", "graft:a:t", "graft:b:t", "graft:c:t", "join:u", "score:b:2", "score:c:2")
		out = append(out, &vfGWScenario{Name: "two-topics", Cfg: vfGWCfg{Router: "gossip", Peers: p3, Topics: []string{"t", "u"}, Params: "d2", Scoring: true, Prefix: pre},
			Alphabet: []string{"hb", "sub:a:u", "sub:b:u", "sub:c:u", "score:a:1", "score:c:0", "graft:a:u", "prune:b:t", "leave:u", "join:u", "leave:t", "join:t"},
			Depth:    d, DevKinds: []string{"peers"}, DevEvents: []string{"hb", "join"}, DevMax: 6})
	}
	// S3c': relay references next to subscriptions, on two topics: a mesh exists exactly while the topic has a
	// subscription or a relay reference of its own, whatever the node holds on the other topic
	{
		p3 := []vfPeerCfg{{Name: "a", Proto: "v11", IP: "10.0.0.1"}, {Name: "b", Proto: "v12", IP: "10.0.0.2"}, {Name: "c", Proto: "v11", IP: "10.0.0.3"}}
		pre := append(connAll(p3, true), "sub:a:u", "sub:b:u")
		out = append(out, &vfGWScenario{Name: "relay-two-topics", Cfg: vfGWCfg{Router: "gossip", Peers: p3, Topics: []string{"t", "u"}, Params: "d2", Scoring: true, Prefix: pre},
			Alphabet: []string{"join:t", "leave:t", "relay:t", "unrelay:t", "join:u", "leave:u", "relay:u", "unrelay:u", "hb"},
			Depth:    d, DevKinds: []string{"peers"}, DevEvents: []string{"hb", "join"}, DevMax: 6})
	}
	// S3d: fanout -> join promotion, including a fanout entry that has run empty (peers left, unsubscribed or
	// fell below the publish threshold) and one that has expired
	{
		p2 := []vfPeerCfg{{Name: "a", Proto: "v11", IP: "10.0.0.1"}, {Name: "b", Proto: "v12", IP: "10.0.0.2"}}
		mk("fanout-join", "d2", p2, []string{"conn:a", "conn:b", "sub:a:t"},
			[]string{"lpub:t:p1", "lpub:t:p2", "unsub:a:t", "sub:a:t", "sub:b:t", "disc:a", "score:a:-3", "hb", "join:t", "leave:t", "adv:61000", "adddirect:a", "meshpeers:t"}, d+1)
	}
	// S4: fanout -> join promotion, two topics
	if thorough {
		mk("grow-d4", "d4", p6, connAll(p6, true),
			[]string{"join:t", "leave:t", "hb", "graft:a:t", "graft:e:t", "prune:b:t", "score:b:-1", "score:d:-1", "disc:d", "conn:d", "sub:d:t", "adv:2500"}, d)
	}
	return out
}

func vfC07Mk(x *vfExec, sc *vfGWScenario) vfInstance {
	return newVfGWInst(x, sc, vfC07Oracle)
}

func init() {
	vfRegister("C07", &vfCheck{
		run: func(r *vfRun) {
			vfRunGWScenarios(r, vfC07Scenarios(r.thorough), vfC07Mk)
			for _, k := range []string{"hb_undersubscribed", "hb_oversubscribed", "mesh_additions", "mesh_removals"} {
				if r.shardN == 1 && r.res.Counters[k] == 0 {
					r.harnessError("vacuous run: counter %s is zero", k)
				}
			}
		},
		replay: func(r *vfRun, raw json.RawMessage) { vfReplayGWScenario(r, raw, vfC07Mk) },
	})
}

var _ = fmt.Sprint
var _ = time.Second
