//go:build !vfsched

package pubsub

// Free-running race pass (DESIGN.md §2.3 / §12).  The controlled scheduler of
// E-SCHED only switches threads at synchronisation operations, and its
// hand-offs are happens-before edges, so an access that is not protected at all
// is invisible to it.  These bodies run the same three components (rpcQueue,
// timecache, BasicSeqnoValidator) with the real sync package and real
// goroutines in a worker built with -race; the driver collects the race
// detector's reports.  This pass samples schedules: it never decides a property
// by itself being silent, it only adds alarms for unsynchronised accesses that
// the exhaustive exploration cannot see by construction.

import (
	"context"
	"encoding/binary"
	"fmt"
	"log/slog"
	"os"
	"sync"
	"testing/synctest"
	"time"

	pb "github.com/libp2p/go-libp2p-pubsub/pb"
	"github.com/libp2p/go-libp2p-pubsub/timecache"
	"github.com/libp2p/go-libp2p/core/peer"
)

func vfRaceQueueIter(capacity, it int) {
	q := newRpcQueue(capacity)
	ctx, cancel := context.WithCancel(context.Background())
	var wg sync.WaitGroup
	guard := func(f func()) {
		wg.Add(1)
		go func() {
			defer wg.Done()
			defer func() { recover() }() // push on a closed queue panics by contract
			f()
		}()
	}
	for p := 0; p < 2; p++ {
		p := p
		guard(func() {
			for k := 0; k < 4; k++ {
				r := &RPC{from: peer.ID(fmt.Sprintf("p%d.%d", p, k))}
				switch (k + p + it) % 4 {
				case 0:
					q.Push(r, true)
				case 1:
					q.UrgentPush(r, true)
				case 2:
					q.Push(r, false)
				default:
					q.UrgentPush(r, false)
				}
			}
		})
	}
	for c := 0; c < 2; c++ {
		guard(func() {
			for k := 0; k < 4; k++ {
				if _, err := q.Pop(ctx); err != nil {
					return
				}
			}
		})
	}
	guard(func() {
		if it%3 == 0 {
			cancel()
		}
		if it%2 == 0 {
			q.Close()
		}
	})
	done := make(chan struct{})
	go func() { wg.Wait(); close(done) }()
	select {
	case <-done:
	case <-time.After(20 * time.Millisecond):
		// whoever is still blocked is released by cancel + Close
	}
	cancel()
	q.Close()
	<-done
}

func vfRaceTimecacheIter(t *vfRun, st timecache.Strategy) {
	vfBubble(t.t, func() {
		tc := timecache.NewTimeCacheWithStrategy(st, 90*time.Second)
		var wg sync.WaitGroup
		for w := 0; w < 3; w++ {
			w := w
			wg.Add(1)
			go func() {
				defer wg.Done()
				for k := 0; k < 40; k++ {
					key := fmt.Sprintf("k%d", (k+w)%3)
					if k%2 == w%2 {
						tc.Add(key)
					} else {
						tc.Has(key)
					}
					time.Sleep(time.Duration(7+w) * time.Second) // the sweeper (one per minute) runs in between and alongside
				}
			}()
		}
		wg.Wait()
		tc.Done()
		synctest.Wait()
	})
}

type vfRaceStore struct {
	mu sync.Mutex
	m  map[peer.ID][]byte
}

func (s *vfRaceStore) Get(ctx context.Context, p peer.ID) ([]byte, error) {
	s.mu.Lock()
	defer s.mu.Unlock()
	return s.m[p], nil
}

func (s *vfRaceStore) Put(ctx context.Context, p peer.ID, v []byte) error {
	s.mu.Lock()
	defer s.mu.Unlock()
	s.m[p] = append([]byte{}, v...)
	return nil
}

func vfRaceSeqnoIter(it int) {
	v := NewBasicSeqnoValidator(&vfRaceStore{m: map[peer.ID][]byte{}}, slog.Default())
	authors := []peer.ID{"author-1", "author-2"}
	var wg sync.WaitGroup
	for w := 0; w < 4; w++ {
		w := w
		wg.Add(1)
		go func() {
			defer wg.Done()
			for k := 0; k < 6; k++ {
				seq := make([]byte, 8)
				binary.BigEndian.PutUint64(seq, uint64((k*3+w+it)%5))
				topic := "t"
				m := &Message{Message: &pb.Message{From: []byte(authors[(w+k)%2]), Seqno: seq, Topic: &topic}}
				v(context.Background(), "src", m)
			}
		}()
	}
	wg.Wait()
}

func init() {
	vfRegister("RACE", &vfCheck{
		run: func(r *vfRun) {
			iters := 400
			if r.thorough {
				iters = 4000
			}
			part := os.Getenv("VF_RACE_PART")
			for it := 0; it < iters && !r.outOfTime(); it++ {
				if part == "" || part == "queue" {
					vfRaceQueueIter(1+it%2, it)
					r.count("queue_iterations", 1)
				}
				if part == "" || part == "seqno" {
					vfRaceSeqnoIter(it)
					r.count("seqno_iterations", 1)
				}
				if (part == "" && it%20 == 0) || (part == "timecache" && it%4 == 0) {
					vfRaceTimecacheIter(r, timecache.Strategy(it/4%2))
					r.count("timecache_iterations", 1)
				}
				r.res.Executions++
			}
		},
	})
}
