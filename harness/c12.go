package pubsub

// C12: no input from remote peers can crash the node or stall its event loop.
//
// Family "frame": for every valid frame of a corpus built from all RPC kinds:
// every proper prefix (then EOF), every single-byte substitution from
// {00,01,7f,80,ff} at every offset, and length-prefix variants {0, len-1, len+1,
// max, max+1, 2^63, 10-byte varint}.  Family "rpc": all <=2-field deviations from
// benign templates of every RPC kind with adversarial field values, preceded or
// not by a benign subscribe+GRAFT from the same peer.  Every candidate runs
// against a fresh real node (three routers; gossipsub with scoring, gater,
// extensions, partial messages and the sequence-number validator), from peers
// of every protocol version.  A panic anywhere kills the worker process and is
// attributed through the in-flight marker.  Afterwards the loop must answer, an
// honest peer's message must be delivered, and undecodable / oversized frames
// must have reset (only) the stream they arrived on.

import (
	"context"
	"encoding/binary"
	"encoding/json"
	"fmt"
	"io"
	"log/slog"
	"strings"
	"testing/synctest"
	"time"

	"github.com/libp2p/go-libp2p-pubsub/partialmessages"
	pb "github.com/libp2p/go-libp2p-pubsub/pb"
	"github.com/libp2p/go-libp2p/core/peer"
	"github.com/libp2p/go-libp2p/core/protocol"
)

const vfC12MaxMsg = 2048

type vfC12Case struct {
	Router string `json:"router"`
	Proto  string `json:"proto"`
	Family string `json:"family"`
	Index  int    `json:"index"`
	Desc   string `json:"desc"`
}

type vfC12Input struct {
	desc     string
	chunks   [][]byte // written one after the other on the attacker's stream
	eof      bool     // attacker closes its write side afterwards
	setup    bool     // a benign subscribe+GRAFT precedes the hostile input
	stepwise bool     // wait for quiescence after every chunk (each chunk is one complete RPC)
}

func vfC12Node(router string) (*vfWorld, *vfNode, *vfMetaStore) {
	w := newVfWorld()
	meta := &vfMetaStore{m: map[peer.ID][]byte{}}
	quiet := slog.New(slog.NewTextHandler(io.Discard, nil))
	opts := []Option{WithMessageSignaturePolicy(StrictNoSign), WithMaxMessageSize(vfC12MaxMsg), WithDefaultValidator(NewBasicSeqnoValidator(meta, quiet))}
	if strings.HasPrefix(router, "gossip") {
		params := vfGSParams("d2")
		// every control RPC (also the benign GRAFT of the setup) counts against the per-heartbeat IHAVE-message
		// budget; leave room so that pairs of IHAVEs reach the id budget (MaxIHaveLength = 2) exactly
		params.MaxIHaveMessages = 4
		app := func(peer.ID) float64 { return 0 }
		sp := &PeerScoreParams{AppSpecificScore: app, AppSpecificWeight: 1, DecayInterval: time.Second, DecayToZero: 0.01, RetainScore: 10 * time.Second,
			BehaviourPenaltyWeight: -1, BehaviourPenaltyDecay: 0.9, IPColocationFactorWeight: -1, IPColocationFactorThreshold: 1,
			Topics: map[string]*TopicScoreParams{"t": {TopicWeight: 1, TimeInMeshQuantum: time.Second, TimeInMeshWeight: 0.1, TimeInMeshCap: 10,
				FirstMessageDeliveriesWeight: 1, FirstMessageDeliveriesDecay: 0.9, FirstMessageDeliveriesCap: 10,
				InvalidMessageDeliveriesWeight: -1, InvalidMessageDeliveriesDecay: 0.9}}}
		gp := NewPeerGaterParams(0.33, 0.9, 0.9)
		gp.DecayInterval = time.Second
		pm := &partialmessages.PartialMessagesExtension[struct{}]{Logger: quiet,
			OnIncomingRPC: func(peer.ID, map[peer.ID]struct{}, *pb.PartialMessagesExtension) error { return nil },
			OnEmitGossip:  func(string, []byte, []peer.ID, map[peer.ID]struct{}) {}}
		opts = append(opts, WithGossipSubParams(params))
		if router == "gossip" {
			// "gossip-plain" is the default node: no scoring (so peer exchange is taken from anybody), no gater, no
			// extension configured, whatever the peer claims to support
			opts = append(opts, WithPeerExchange(true), WithPeerScore(sp, vfThresholds("std")), WithPeerGater(gp), WithTestExtension(TestExtensionConfig{}), WithPartialMessagesExtension(pm))
		}
	}
	n, err := vfNewNode(w, "N", strings.TrimSuffix(router, "-plain"), opts...)
	if err != nil {
		panic(err)
	}
	// addresses handed to the node lead nowhere: a dial hangs until the dialer's own deadline
	n.h.hmu.Lock()
	n.h.slowDial = true
	n.h.hmu.Unlock()
	return w, n, meta
}

// ---- corpus of valid RPCs

func vfC12Corpus(self, attacker peer.ID) []*RPC {
	t, u := "t", "unknown-topic"
	tr := true
	bo := uint64(60)
	msg := &pb.Message{From: []byte(attacker), Data: []byte("hello"), Seqno: []byte{0, 0, 0, 0, 0, 0, 0, 7}, Topic: &t}
	return []*RPC{
		{RPC: pb.RPC{Subscriptions: []*pb.RPC_SubOpts{{Topicid: &t, Subscribe: &tr, RequestsPartial: &tr}, {Topicid: &u, Subscribe: &tr}}}},
		{RPC: pb.RPC{Publish: []*pb.Message{msg}}},
		{RPC: pb.RPC{Control: &pb.ControlMessage{Graft: []*pb.ControlGraft{{TopicID: &t}}, Prune: []*pb.ControlPrune{{TopicID: &t, Backoff: &bo, Peers: vfPXEntries()[:2]}}}}},
		{RPC: pb.RPC{Control: &pb.ControlMessage{Ihave: []*pb.ControlIHave{{TopicID: &t, MessageIDs: []string{"id-one", "id-two"}}}, Iwant: []*pb.ControlIWant{{MessageIDs: []string{"id-one"}}},
			Idontwant: []*pb.ControlIDontWant{{MessageIDs: []string{"id-three"}}}}}},
		{RPC: pb.RPC{Control: &pb.ControlMessage{Extensions: &pb.ControlExtensions{PartialMessages: &tr, TestExtension: &tr}}, TestExtension: &pb.TestExtension{},
			Partial: &pb.PartialMessagesExtension{TopicID: &t, GroupID: []byte("g1"), PartialMessage: []byte("part"), PartsMetadata: []byte{1, 2}}}},
	}
}

func vfVarint(n uint64) []byte {
	b := make([]byte, binary.MaxVarintLen64)
	return b[:binary.PutUvarint(b, n)]
}

func vfC12FrameInputs(self, attacker peer.ID) []vfC12Input {
	var out []vfC12Input
	for ci, rpc := range vfC12Corpus(self, attacker) {
		body, _ := rpc.Marshal()
		frame := append(vfVarint(uint64(len(body))), body...)
		for i := 1; i < len(frame); i++ {
			out = append(out, vfC12Input{desc: fmt.Sprintf("corpus%d prefix[:%d] then EOF", ci, i), chunks: [][]byte{frame[:i]}, eof: true})
		}
		for i := 0; i < len(frame); i++ {
			for _, v := range []byte{0x00, 0x01, 0x7f, 0x80, 0xff} {
				if frame[i] == v {
					continue
				}
				f := append([]byte{}, frame...)
				f[i] = v
				out = append(out, vfC12Input{desc: fmt.Sprintf("corpus%d byte[%d]=%02x", ci, i, v), chunks: [][]byte{f}, eof: true, setup: i%2 == 1})
			}
		}
		for _, l := range []uint64{0, uint64(len(body) - 1), uint64(len(body) + 1), vfC12MaxMsg, vfC12MaxMsg + 1, 1 << 63} {
			out = append(out, vfC12Input{desc: fmt.Sprintf("corpus%d length=%d", ci, l), chunks: [][]byte{append(vfVarint(l), body...)}, eof: true})
		}
		out = append(out, vfC12Input{desc: fmt.Sprintf("corpus%d ten-byte-varint", ci), chunks: [][]byte{append([]byte{0xff, 0xff, 0xff, 0xff, 0xff, 0xff, 0xff, 0xff, 0xff, 0x7f}, body...)}, eof: true})
		out = append(out, vfC12Input{desc: fmt.Sprintf("corpus%d eleven-byte-varint", ci), chunks: [][]byte{append([]byte{0xff, 0xff, 0xff, 0xff, 0xff, 0xff, 0xff, 0xff, 0xff, 0xff, 0x01}, body...)}, eof: true})
	}
	return out
}

// ---- hostile but well-formed RPCs

type vfC12Field struct {
	name string
	set  func(r *RPC, v []byte, absent bool)
}

func vfC12Values(self, attacker peer.ID) map[string][]byte {
	big := make([]byte, 1500) // close to (but within) the frame limit once wrapped
	for i := range big {
		big[i] = 'A'
	}
	return map[string][]byte{
		"empty": {}, "1byte": {0x01}, "3bytes": {0, 0, 5}, "9bytes": {1, 2, 3, 4, 5, 6, 7, 8, 9}, "big": big, "badutf8": {0xff, 0xfe, 0xfd},
		"known-topic": []byte("t"), "unknown": []byte("zzz-unknown"), "self": []byte(self), "attacker": []byte(attacker), "otherpeer": []byte(vfIdentity("y").id),
		"8bytes-max": {0xff, 0xff, 0xff, 0xff, 0xff, 0xff, 0xff, 0xff},
	}
}

func vfSp(b []byte, absent bool) *string {
	if absent {
		return nil
	}
	s := string(b)
	return &s
}

func vfC12Templates() map[string]func() *RPC {
	t := "t"
	tr := true
	return map[string]func() *RPC{
		"sub": func() *RPC { return &RPC{RPC: pb.RPC{Subscriptions: []*pb.RPC_SubOpts{{Topicid: &t, Subscribe: &tr}}}} },
		"publish": func() *RPC {
			return &RPC{RPC: pb.RPC{Publish: []*pb.Message{{From: []byte("x"), Data: []byte("d"), Seqno: []byte{0, 0, 0, 0, 0, 0, 0, 1}, Topic: &t}}}}
		},
		"graft": func() *RPC { return vfGraftRPC("t") },
		"prune": func() *RPC {
			return vfPruneRPC("t", 60, &pb.PeerInfo{PeerID: []byte("p"), SignedPeerRecord: []byte("r")})
		},
		"ihave": func() *RPC {
			return vfCtlRPC(&pb.ControlMessage{Ihave: []*pb.ControlIHave{{TopicID: &t, MessageIDs: []string{"i"}}}})
		},
		"iwant": func() *RPC {
			return vfCtlRPC(&pb.ControlMessage{Iwant: []*pb.ControlIWant{{MessageIDs: []string{"i"}}}})
		},
		"idw": func() *RPC {
			return vfCtlRPC(&pb.ControlMessage{Idontwant: []*pb.ControlIDontWant{{MessageIDs: []string{"i"}}}})
		},
		"ext": func() *RPC {
			return &RPC{RPC: pb.RPC{Control: &pb.ControlMessage{Extensions: &pb.ControlExtensions{PartialMessages: &tr, TestExtension: &tr}}, TestExtension: &pb.TestExtension{}}}
		},
		"partial": func() *RPC {
			return &RPC{RPC: pb.RPC{Control: &pb.ControlMessage{Extensions: &pb.ControlExtensions{PartialMessages: &tr}},
				Partial: &pb.PartialMessagesExtension{TopicID: &t, GroupID: []byte("g"), PartialMessage: []byte("p"), PartsMetadata: []byte("m")}}}
		},
	}
}

func vfC12Fields() map[string][]vfC12Field {
	return map[string][]vfC12Field{
		"sub": {{"topic", func(r *RPC, v []byte, a bool) { r.Subscriptions[0].Topicid = vfSp(v, a) }},
			{"subscribe", func(r *RPC, v []byte, a bool) {
				if a {
					r.Subscriptions[0].Subscribe = nil
				} else {
					b := len(v)%2 == 0
					r.Subscriptions[0].Subscribe = &b
				}
			}},
			{"dup", func(r *RPC, v []byte, a bool) {
				for i := 0; i < 3; i++ {
					r.Subscriptions = append(r.Subscriptions, &pb.RPC_SubOpts{Topicid: vfSp(v, a), Subscribe: r.Subscriptions[0].Subscribe})
				}
			}}},
		"publish": {{"from", func(r *RPC, v []byte, a bool) { r.Publish[0].From = vfB(v, a) }},
			{"data", func(r *RPC, v []byte, a bool) { r.Publish[0].Data = vfB(v, a) }},
			{"seqno", func(r *RPC, v []byte, a bool) { r.Publish[0].Seqno = vfB(v, a) }},
			{"topic", func(r *RPC, v []byte, a bool) { r.Publish[0].Topic = vfSp(v, a) }},
			{"signature", func(r *RPC, v []byte, a bool) { r.Publish[0].Signature = vfB(v, a) }},
			{"key", func(r *RPC, v []byte, a bool) { r.Publish[0].Key = vfB(v, a) }}},
		"graft": {{"topic", func(r *RPC, v []byte, a bool) { r.Control.Graft[0].TopicID = vfSp(v, a) }},
			{"repeat", func(r *RPC, v []byte, a bool) {
				for i := 0; i < 4; i++ {
					r.Control.Graft = append(r.Control.Graft, &pb.ControlGraft{TopicID: vfSp(v, a)})
				}
			}}},
		"prune": {{"topic", func(r *RPC, v []byte, a bool) { r.Control.Prune[0].TopicID = vfSp(v, a) }},
			{"pxid", func(r *RPC, v []byte, a bool) { r.Control.Prune[0].Peers[0].PeerID = vfB(v, a) }},
			{"pxrecord", func(r *RPC, v []byte, a bool) { r.Control.Prune[0].Peers[0].SignedPeerRecord = vfB(v, a) }},
			{"pxset", func(r *RPC, v []byte, a bool) { r.Control.Prune[0].Peers = vfPXEntries() }},
			{"backoff", func(r *RPC, v []byte, a bool) {
				if a {
					r.Control.Prune[0].Backoff = nil
					return
				}
				var b uint64
				for _, x := range v {
					b = b<<8 | uint64(x)
				}
				if len(v) > 8 {
					b = 1 << 63
				}
				r.Control.Prune[0].Backoff = &b
			}}},
		"ihave": {{"topic", func(r *RPC, v []byte, a bool) { r.Control.Ihave[0].TopicID = vfSp(v, a) }},
			{"id", func(r *RPC, v []byte, a bool) {
				if a {
					r.Control.Ihave[0].MessageIDs = nil
				} else {
					r.Control.Ihave[0].MessageIDs = []string{string(v), string(v), "x"}
				}
			}}},
		"iwant": {{"id", func(r *RPC, v []byte, a bool) {
			if a {
				r.Control.Iwant[0].MessageIDs = nil
			} else {
				r.Control.Iwant[0].MessageIDs = []string{string(v), string(v)}
			}
		}}, {"repeat", func(r *RPC, v []byte, a bool) {
			for i := 0; i < 4; i++ {
				r.Control.Iwant = append(r.Control.Iwant, &pb.ControlIWant{MessageIDs: []string{string(v)}})
			}
		}}},
		"idw": {{"id", func(r *RPC, v []byte, a bool) {
			if a {
				r.Control.Idontwant[0].MessageIDs = nil
			} else {
				r.Control.Idontwant[0].MessageIDs = []string{string(v), "", string(v)}
			}
		}}},
		"ext": {{"flags", func(r *RPC, v []byte, a bool) {
			if a {
				r.Control.Extensions = &pb.ControlExtensions{}
			} else {
				b := len(v)%2 == 0
				r.Control.Extensions.TestExtension = &b
			}
		}}, {"testext", func(r *RPC, v []byte, a bool) {
			if a {
				r.TestExtension = nil
			}
		}}},
		"partial": {{"topic", func(r *RPC, v []byte, a bool) { r.Partial.TopicID = vfSp(v, a) }},
			{"group", func(r *RPC, v []byte, a bool) { r.Partial.GroupID = vfB(v, a) }},
			{"message", func(r *RPC, v []byte, a bool) { r.Partial.PartialMessage = vfB(v, a) }},
			{"metadata", func(r *RPC, v []byte, a bool) { r.Partial.PartsMetadata = vfB(v, a) }},
			{"noext", func(r *RPC, v []byte, a bool) { r.Control = nil }}},
	}
}

func vfB(v []byte, absent bool) []byte {
	if absent {
		return nil
	}
	return append([]byte{}, v...)
}

func vfC12RPCInputs(self, attacker peer.ID, maxDev int) []vfC12Input {
	var out []vfC12Input
	// peer-exchange floods: more candidates than the connector queue holds, none of them reachable
	for _, nPrunes := range []int{1, 2} {
		t := "t"
		ctl := &pb.ControlMessage{}
		for k := 0; k < nPrunes; k++ {
			pr := &pb.ControlPrune{TopicID: &t}
			for i := 0; i < 16; i++ {
				pr.Peers = append(pr.Peers, &pb.PeerInfo{PeerID: []byte(fmt.Sprintf("\x00\x24\x08\x01\x12\x20px-candidate-%02d-%02d-0123456789abc", k, i))})
			}
			ctl.Prune = append(ctl.Prune, pr)
		}
		out = append(out, vfC12Input{desc: fmt.Sprintf("px-flood %d prune(s) x 16 candidates", nPrunes), chunks: [][]byte{vfFrame(vfCtlRPC(ctl))}, setup: true, stepwise: true})
	}
	vals := vfC12Values(self, attacker)
	vnames := vfSortedKeys(vals)
	vnames = append([]string{"<absent>"}, vnames...)
	tmpl := vfC12Templates()
	fields := vfC12Fields()
	for _, kind := range vfSortedKeys(tmpl) {
		fl := fields[kind]
		type dev struct {
			f int
			v string
		}
		var devs [][]dev
		for i := range fl {
			for _, v := range vnames {
				devs = append(devs, []dev{{i, v}})
			}
		}
		if maxDev >= 2 {
			for i := range fl {
				for j := i + 1; j < len(fl); j++ {
					for _, v1 := range vnames {
						for _, v2 := range vnames {
							devs = append(devs, []dev{{i, v1}, {j, v2}})
						}
					}
				}
			}
		}
		for di, dv := range devs {
			r := tmpl[kind]()
			var d []string
			for _, x := range dv {
				fl[x.f].set(r, vals[x.v], x.v == "<absent>")
				d = append(d, fl[x.f].name+"="+x.v)
			}
			body, err := r.Marshal()
			if err != nil || len(body)+3 > vfC12MaxMsg {
				continue
			}
			out = append(out, vfC12Input{desc: kind + " " + strings.Join(d, " "), chunks: [][]byte{append(vfVarint(uint64(len(body))), body...)}, setup: di%2 == 0})
		}
	}
	return out
}

// vfC12SeqInputs: sequences of 2 (thorough: 3) well-formed RPCs from one peer inside one heartbeat interval; the
// items are chosen so that per-heartbeat budgets are hit exactly, exceeded by one, and reused after exhaustion.
func vfC12SeqInputs(self, attacker peer.ID, maxLen int) []vfC12Input {
	t := "t"
	tr := true
	ids := func(n, base int) []string {
		var o []string
		for i := 0; i < n; i++ {
			o = append(o, fmt.Sprintf("unseen-id-%02d", base+i))
		}
		return o
	}
	msg := &pb.Message{From: []byte(attacker), Data: []byte("hello-hello-hello-hello"), Seqno: []byte{0, 0, 0, 0, 0, 0, 0, 7}, Topic: &t}
	type item struct {
		name string
		rpc  *RPC
	}
	items := []item{
		{"sub", vfSubRPC("t", true)}, {"unsub", vfSubRPC("t", false)}, {"graft", vfGraftRPC("t")}, {"prune", vfPruneRPC("t", 1)},
		{"ihave1", vfCtlRPC(&pb.ControlMessage{Ihave: []*pb.ControlIHave{{TopicID: &t, MessageIDs: ids(1, 0)}}})},
		{"ihave2", vfCtlRPC(&pb.ControlMessage{Ihave: []*pb.ControlIHave{{TopicID: &t, MessageIDs: ids(2, 10)}}})},
		{"ihave3", vfCtlRPC(&pb.ControlMessage{Ihave: []*pb.ControlIHave{{TopicID: &t, MessageIDs: ids(3, 20)}}})},
		{"ihave1b", vfCtlRPC(&pb.ControlMessage{Ihave: []*pb.ControlIHave{{TopicID: &t, MessageIDs: ids(1, 30)}}})},
		{"iwant", vfCtlRPC(&pb.ControlMessage{Iwant: []*pb.ControlIWant{{MessageIDs: []string{DefaultMsgIdFn(msg)}}}})},
		{"idw1", vfCtlRPC(&pb.ControlMessage{Idontwant: []*pb.ControlIDontWant{{MessageIDs: ids(1, 40)}}})},
		{"idw3", vfCtlRPC(&pb.ControlMessage{Idontwant: []*pb.ControlIDontWant{{MessageIDs: ids(3, 50)}}})},
		{"publish", vfPubRPC(msg)},
		{"ext", &RPC{RPC: pb.RPC{Control: &pb.ControlMessage{Extensions: &pb.ControlExtensions{PartialMessages: &tr, TestExtension: &tr}}}}},
		{"partial", &RPC{RPC: pb.RPC{Partial: &pb.PartialMessagesExtension{TopicID: &t, GroupID: []byte("g"), PartialMessage: []byte("p"), PartsMetadata: []byte("m")}}}},
	}
	var out []vfC12Input
	var rec func(cur []int)
	rec = func(cur []int) {
		if len(cur) >= 2 {
			var names []string
			var chunks [][]byte
			for _, i := range cur {
				names = append(names, items[i].name)
				chunks = append(chunks, vfFrame(items[i].rpc))
			}
			out = append(out, vfC12Input{desc: "seq " + strings.Join(names, ","), chunks: chunks, setup: true, stepwise: true})
		}
		if len(cur) == maxLen {
			return
		}
		for i := range items {
			rec(append(append([]int{}, cur...), i))
		}
	}
	rec(nil)
	return out
}

// vfC12RunOne runs one candidate against a fresh node; returns an observation string.
func vfC12RunOne(r *vfRun, c vfC12Case, in vfC12Input, judge bool) (obs string) {
	bad := func(fp, format string, a ...any) {
		if judge {
			r.violation("c12:"+fp, fmt.Sprintf("[%s/%s %s #%d %s] ", c.Router, c.Proto, c.Family, c.Index, in.desc)+fmt.Sprintf(format, a...), c)
		}
	}
	p := vfBubble(r.t, func() {
		w, n, _ := vfC12Node(c.Router)
		hp := map[string]protocol.ID{"flood": FloodSubID, "random": RandomSubID, "gossip": GossipSubID_v12, "gossip-plain": GossipSubID_v12}[c.Router]
		att := newVfFake(w, "a", vfProtoByName[c.Proto])
		hon := newVfFake(w, "b", hp)
		var sub *Subscription
		if c.Router == "gossip-plain" {
			sub, _ = n.ps.Subscribe("t")
		} else if c.Router == "gossip" {
			tp, err := n.ps.Join("t", RequestPartialMessages())
			if err != nil {
				panic(err)
			}
			sub, _ = tp.Subscribe()
		} else {
			sub, _ = n.ps.Subscribe("t")
		}
		for _, f := range []*vfFake{att, hon} {
			w.connect(f.ident.id, n.id(), "10.0.0.1", "10.0.0.2")
			synctest.Wait()
			if err := f.openInbound(n.h, f.protos[0]); err != nil {
				panic(err)
			}
		}
		hon.send(vfSubRPC("t", true))
		synctest.Wait()
		if in.setup {
			att.send(vfSubRPC("t", true))
			att.send(vfGraftRPC("t"))
			synctest.Wait()
		}
		for _, ch := range in.chunks {
			att.sendRaw(ch)
			if in.stepwise {
				synctest.Wait()
			}
		}
		if in.eof {
			att.in.CloseWrite()
		}
		synctest.Wait()
		vfAdvance(1100 * time.Millisecond) // one heartbeat with whatever state the input left behind
		// classification of the byte stream by an independent framing pass
		all := []byte{}
		for _, ch := range in.chunks {
			all = append(all, ch...)
		}
		mustReset := false
		for len(all) > 0 {
			l, k := binary.Uvarint(all)
			if k <= 0 {
				mustReset = k < 0 // a length prefix that overflows 64 bits does not decode
				break
			}
			if l > vfC12MaxMsg {
				mustReset = true
				break
			}
			if uint64(len(all)-k) < l {
				break // a truncated frame followed by EOF: how the stream ends is not constrained by the statement
			}
			if l > 0 {
				if err := new(pb.RPC).Unmarshal(all[k : k+int(l)]); err != nil {
					mustReset = true
					break
				}
			}
			all = all[k+int(l):]
		}
		att.in.out.mu.Lock()
		wasReset := att.in.out.reset
		att.in.out.mu.Unlock()
		if mustReset && !wasReset {
			bad("bad-frame-not-reset", "an oversized / undecodable / truncated frame did not reset the stream it arrived on")
		}
		if mustReset {
			r.count("inputs_that_must_reset_the_stream", 1)
		}
		// liveness: the loop answers, the API answers, an honest message is delivered, the honest peer's streams live
		done := make(chan struct{})
		go func() { n.ps.ListPeers("t"); n.eval(func() {}); close(done) }()
		synctest.Wait()
		select {
		case <-done:
		default:
			bad("loop-stalled", "the event loop / API no longer answers")
		}
		if !hon.inAlive() || !hon.outAlive() {
			bad("bystander-affected", "the honest peer's streams were closed")
		}
		topic := "t"
		hon.send(vfPubRPC(&pb.Message{From: []byte(hon.ident.id), Data: []byte("probe"), Seqno: []byte{0, 0, 0, 0, 0, 0, 1, 0}, Topic: &topic}))
		synctest.Wait()
		got := false
		for {
			select {
			case m := <-sub.ch:
				if string(m.GetData()) == "probe" {
					got = true
				}
				continue
			default:
			}
			break
		}
		if !got {
			bad("honest-not-delivered", "a message from an honest peer is no longer delivered")
		}
		obs = fmt.Sprintf("reset=%v mustReset=%v probe=%v", wasReset, mustReset, got)
		// the attacker leaves in the most awkward order: first it resets the stream the node opened to it (its own
		// stream, if still up, outlives it), then it disconnects; whatever it claimed while connected, the node
		// must get through both steps
		if att.out != nil {
			att.out.Reset()
			synctest.Wait()
			vfAdvance(150 * time.Millisecond) // the writer is respawned after the dead-peer backoff
		}
		// ... and it keeps killing every stream the node opens to it, beyond the node's re-open budget, and then
		// talks to the node on its own stream with RPCs that want an answer
		for i := 0; i < MaxBackoffAttempts+1; i++ {
			att.mu.Lock()
			o := att.out
			att.mu.Unlock()
			if o != nil {
				o.Reset()
			}
			synctest.Wait()
			vfAdvance(1100 * time.Millisecond)
		}
		if att.inAlive() {
			tt := "t"
			att.send(vfSubRPC("t", true))
			att.send(vfGraftRPC("t"))
			att.send(vfCtlRPC(&pb.ControlMessage{Ihave: []*pb.ControlIHave{{TopicID: &tt, MessageIDs: []string{"never-seen-id"}}}, Iwant: []*pb.ControlIWant{{MessageIDs: []string{"never-seen-id"}}}}))
			synctest.Wait()
			vfAdvance(1100 * time.Millisecond)
		}
		if sub2, err := n.ps.Subscribe("another-topic"); err == nil { // an announcement goes to every peer the node still has a queue for
			sub2.Cancel()
		}
		synctest.Wait()
		w.disconnect(att.ident.id, n.id())
		synctest.Wait()
		done2 := make(chan struct{})
		go func() { n.ps.ListPeers("t"); n.eval(func() {}); close(done2) }()
		synctest.Wait()
		select {
		case <-done2:
		default:
			bad("loop-stalled-after-departure", "the event loop / API no longer answers after the hostile peer has left")
		}
		if r.replay {
			for _, rc := range att.take() {
				obs += " | " + vfRenderRPC(rc.rpc, nil)
			}
			n.eval(func() {
				if n.gs != nil {
					obs += fmt.Sprintf(" | iasked=%v peerhave=%v score=%v", n.gs.iasked, n.gs.peerhave, n.gs.score.Score(att.ident.id))
				}
			})
		}
		vfTeardown(w, n)
	})
	if p != "" {
		bad("panic:"+vfPanicFingerprint(p), "panic: %s", vfFirstLine(p))
	}
	return obs
}

func vfC12Families(thorough bool) []vfC12Case {
	var out []vfC12Case
	for _, router := range []string{"gossip", "gossip-plain", "flood", "random"} {
		protos := map[string][]string{"gossip": {"v13", "v12", "v11", "v10", "fs"}, "gossip-plain": {"v13", "v12"}, "flood": {"fs"}, "random": {"rs", "fs"}}[router]
		if !thorough && router == "gossip" {
			protos = []string{"v13", "v11", "fs"}
		}
		if !thorough && router == "gossip-plain" {
			protos = []string{"v13"}
		}
		for _, proto := range protos {
			out = append(out, vfC12Case{Router: router, Proto: proto, Family: "frame"}, vfC12Case{Router: router, Proto: proto, Family: "rpc"})
			if router == "gossip" && (proto == "v13" || proto == "v11" || thorough) {
				out = append(out, vfC12Case{Router: router, Proto: proto, Family: "seq"})
			}
		}
	}
	return out
}

func vfC12Inputs(c vfC12Case, thorough bool) []vfC12Input {
	self, att := vfIdentity("N").id, vfIdentity("a").id
	if c.Family == "frame" {
		return vfC12FrameInputs(self, att)
	}
	if c.Family == "seq" {
		n := 2
		if thorough {
			n = 3
		}
		return vfC12SeqInputs(self, att, n)
	}
	maxDev := 1
	if thorough || strings.HasPrefix(c.Router, "gossip") {
		maxDev = 2
	}
	return vfC12RPCInputs(self, att, maxDev)
}

func init() {
	vfRegister("C12", &vfCheck{
		run: func(r *vfRun) {
			total := 0
			for _, fam := range vfC12Families(r.thorough) {
				inputs := vfC12Inputs(fam, r.thorough)
				total += len(inputs)
				for i, in := range inputs {
					if _, ok := r.nextCase(); !ok {
						continue
					}
					if r.outOfTime() {
						r.res.Bounds["inputs_total"] = total
						return
					}
					c := fam
					c.Index, c.Desc = i, in.desc
					r.mark(c)
					obs := vfC12RunOne(r, c, in, true)
					r.unmark()
					r.res.Executions++
					r.outcome(fam.Router + "/" + fam.Family + ":" + obs)
					r.nontrivial(fmt.Sprintf("%s/%s/%s/%d", fam.Router, fam.Proto, fam.Family, i))
					if len(r.res.Samples) < 4 && i%97 == 5 {
						r.sample(c)
					}
				}
			}
			r.res.Bounds["inputs_total"] = total
		},
		replay: func(r *vfRun, raw json.RawMessage) {
			var c vfC12Case
			if err := json.Unmarshal(raw, &c); err != nil {
				r.harnessError("bad case: %v", err)
				return
			}
			inputs := vfC12Inputs(c, true)
			var in *vfC12Input
			for i := range inputs {
				if inputs[i].desc == c.Desc {
					in = &inputs[i]
				}
			}
			if in == nil {
				inputs = vfC12Inputs(c, false)
				for i := range inputs {
					if inputs[i].desc == c.Desc {
						in = &inputs[i]
					}
				}
			}
			if in == nil {
				r.harnessError("input %q not found", c.Desc)
				return
			}
			fmt.Println(vfC12RunOne(r, c, *in, true))
			r.res.Executions++
		},
	})
}

var _ = context.Background
