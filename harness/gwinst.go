package pubsub

// Generic explorer instance on top of vfGW: a scenario provides the alphabet
// (base events, filtered by enabledness), which choice kinds may deviate, and
// an oracle evaluated after every event with the pre/post in-loop snapshots
// and the wire log of the step.

import (
	"encoding/json"
	"fmt"
	"sort"
	"strings"
)

type vfGWScenario struct {
	Name      string               `json:"name"`
	Cfg       vfGWCfg              `json:"cfg"`
	Alphabet  []string             `json:"alphabet"`
	Msgs      map[string]vfMsgSpec `json:"msgs,omitempty"`
	Depth     int                  `json:"depth"`
	DevKinds  []string             `json:"dev_kinds,omitempty"`  // choice kinds that may deviate ("peers", "strings", "pick", "coin")
	DevMax    int                  `json:"dev_max,omitempty"`    // max choice points per event considered for deviation
	DevEvents []string             `json:"dev_events,omitempty"` // event name prefixes whose choices may deviate
	Leaf      []string             `json:"leaf,omitempty"`       // events applied at every state, never expanded
	MaxSubs   int                  `json:"max_subs,omitempty"`   // subscriptions per topic the alphabet may hold (default 1)
}

type vfGWOracle func(in *vfGWInst, ev string, pre, post *vfSnap)

type vfGWInst struct {
	g         *vfGW
	sc        *vfGWScenario
	oracle    vfGWOracle
	finishFn  func(in *vfGWInst)
	last      *vfSnap
	announced map[string]map[string]bool // what each fake currently announces
	lastEv    string
	state     map[string]string // oracle-owned monitor state (part of the canonical state)
	mon       any               // oracle-owned monitor object
	monCanon  func(in *vfGWInst) string
	lpubN     int
	lpubDone  map[string]bool
	blAPI     map[string]bool // peers BlacklistPeer has been called for
}

func newVfGWInst(x *vfExec, sc *vfGWScenario, oracle vfGWOracle, extra ...Option) *vfGWInst {
	in := &vfGWInst{sc: sc, oracle: oracle, announced: map[string]map[string]bool{}, state: map[string]string{}}
	for _, p := range sc.Cfg.Peers {
		in.announced[p.Name] = map[string]bool{}
	}
	cfg := sc.Cfg
	prefix := cfg.Prefix
	cfg.Prefix = nil
	in.g = newVfGW(x, &cfg, sc.Msgs, extra...)
	for _, ev := range prefix {
		in.track(ev)
		in.g.apply(ev)
	}
	in.g.clearStep()
	in.last = in.g.snap()
	return in
}

func (in *vfGWInst) track(evFull string) {
	ev, _ := vfSplitChoice(evFull)
	f := strings.Split(ev, ":")
	switch f[0] {
	case "sub":
		in.announced[f[1]][f[2]] = true
	case "unsub":
		delete(in.announced[f[1]], f[2])
	case "sub2":
		for _, t := range strings.Split(f[2], "+") {
			in.announced[f[1]][t] = true
		}
	case "disc", "inclose", "inreset", "inopen", "outreset", "outclose":
		in.announced[f[1]] = map[string]bool{}
	case "bl":
		if in.blAPI == nil {
			in.blAPI = map[string]bool{}
		}
		in.blAPI[f[1]] = true
	case "lpub", "lpubbatch", "lpubgo":
		if in.lpubDone == nil {
			in.lpubDone = map[string]bool{}
		}
		in.lpubDone[f[2]] = true
	case "lpubbatch2":
		if in.lpubDone == nil {
			in.lpubDone = map[string]bool{}
		}
		in.lpubDone[f[2]], in.lpubDone[f[4]] = true, true
	}
}

// enabled filters the scenario alphabet by what makes sense in the current state.
func (in *vfGWInst) Enabled() []string {
	g := in.g
	var out []string
	for _, ev := range in.sc.Alphabet {
		f := strings.Split(ev, ":")
		ok := true
		switch f[0] {
		case "conn":
			ok = !g.conn[f[1]]
		case "disc":
			ok = g.conn[f[1]]
		case "sub":
			ok = g.conn[f[1]] && !in.announced[f[1]][f[2]] && g.fake(f[1]).inAlive()
		case "unsub":
			ok = g.conn[f[1]] && in.announced[f[1]][f[2]] && g.fake(f[1]).inAlive()
		case "sub2":
			ok = g.conn[f[1]] && g.fake(f[1]).inAlive()
			for _, t := range strings.Split(f[2], "+") {
				ok = ok && !in.announced[f[1]][t]
			}
		case "graft", "prune", "prunepx", "pub", "pubdup", "ihave", "iwant", "idw":
			ok = g.conn[f[1]] && g.fake(f[1]).inAlive()
		case "inclose", "inreset":
			ok = g.conn[f[1]] && g.fake(f[1]).inAlive()
		case "inopen":
			ok = g.conn[f[1]]
		case "outreset", "outclose":
			ok = g.conn[f[1]] && g.fake(f[1]).outAlive()
		case "join":
			max := in.sc.MaxSubs
			if max == 0 {
				max = 1
			}
			ok = len(g.subs[f[1]]) < max
		case "close":
			_, ok = g.topics[f[1]]
		case "leave":
			ok = len(g.subs[f[1]]) > 0
		case "relay":
			ok = len(g.relays[f[1]]) == 0
		case "unrelay":
			ok = len(g.relays[f[1]]) > 0
		case "gate":
			ok = g.conn[f[1]] && !g.gated[f[1]]
		case "ungate", "letone":
			ok = g.gated[f[1]]
		case "score":
			g.appMu.Lock()
			cur := g.app[g.pid(f[1])]
			g.appMu.Unlock()
			ok = fmt.Sprint(cur) != f[2]
		case "bl":
			// (also for a peer that is already in the list through the implementation: BlacklistPeer still has to evict it)
			ok = !in.blAPI[f[1]]
		case "lpub", "lpubbatch", "lpubgo":
			ok = !in.lpubDone[f[2]] // labels of local publications are unique
		case "lpubbatch2":
			ok = !in.lpubDone[f[2]] && !in.lpubDone[f[4]]
		case "blimpl":
			ok = !in.last.Blacklst[f[1]]
		case "hold":
			ok = !g.conn[f[1]] && !g.held[f[1]]
		case "release", "failstream":
			ok = g.held[f[1]]
		case "holdy":
			a, p := g.yieldState()
			ok = true
			for _, k := range append(a, p...) {
				if k == f[1]+"|"+f[2] {
					ok = false
				}
			}
		case "rely":
			_, p := g.yieldState()
			ok = false
			for _, k := range p {
				if k == f[1]+"|"+f[2] {
					ok = true
				}
			}
		case "vrel":
			ok = false
			for _, p := range g.pendingVals() {
				if p == f[1]+"|"+f[2] {
					ok = true
				}
			}
		}
		if ok {
			out = append(out, ev)
		}
	}
	return out
}

func (in *vfGWInst) Apply(ev string, judge bool) string {
	pre := in.last
	in.g.clearStep()
	in.track(ev)
	in.g.apply(ev)
	post := in.g.snap()
	in.last = post
	in.lastEv = ev
	if judge && in.oracle != nil {
		in.oracle(in, ev, pre, post)
	} else if in.oracle != nil {
		// monitors must see every event to stay in sync; they do not report when !judge
		in.oracle(in, ev, pre, post)
	}
	return in.g.wireLog()
}

// LastDeviations lists single-deviation variants of the event just applied.
func (in *vfGWInst) LastDeviations() []string {
	if len(in.sc.DevKinds) == 0 || strings.Contains(in.lastEv, "!") {
		return nil
	}
	okEv := len(in.sc.DevEvents) == 0
	for _, p := range in.sc.DevEvents {
		if strings.HasPrefix(in.lastEv, p) {
			okEv = true
		}
	}
	if !okEv {
		return nil
	}
	max := in.sc.DevMax
	if max == 0 {
		max = 8
	}
	return vfDeviations(in.lastEv, in.g.lastPts, in.sc.DevKinds, max)
}

func (in *vfGWInst) Canon() string {
	var sb strings.Builder
	sb.WriteString(in.g.canon())
	for _, k := range vfSortedKeys(in.state) {
		fmt.Fprintf(&sb, "\nmon[%s]=%s", k, in.state[k])
	}
	if in.monCanon != nil {
		sb.WriteString("\nMON:" + in.monCanon(in))
	}
	for _, p := range in.g.order {
		var l []string
		for t := range in.announced[p] {
			l = append(l, t)
		}
		sort.Strings(l)
		fmt.Fprintf(&sb, "\nann[%s]=%v", p, l)
	}
	return sb.String()
}

func (in *vfGWInst) Finish(judge bool) string {
	if in.finishFn != nil {
		in.finishFn(in)
	}
	in.g.finish()
	return ""
}

func (in *vfGWInst) bad(fp, format string, a ...any) {
	in.g.x.violation(fp, fmt.Sprintf("[%s] after %q: ", in.sc.Name, in.lastEv)+fmt.Sprintf(format, a...))
}

func (in *vfGWInst) count(name string) {
	if in.g.x.judge {
		in.g.x.r.count(name, 1)
	}
}

// vfRunGWScenarios is the common run loop: one BFS per scenario, sharded by scenario.
func vfRunGWScenarios(r *vfRun, scs []*vfGWScenario, mk func(x *vfExec, sc *vfGWScenario) vfInstance) {
	for _, sc := range scs {
		if _, ok := r.nextCase(); !ok {
			continue
		}
		sc := sc
		vfExplore(r, &vfExploreCfg{Scenario: sc, Name: sc.Name, MaxDepth: sc.Depth, Bubble: true, Leaf: sc.Leaf,
			New: func(x *vfExec) vfInstance { return mk(x, sc) }})
	}
}

func vfReplayGWScenario(r *vfRun, raw json.RawMessage, mk func(x *vfExec, sc *vfGWScenario) vfInstance) {
	var c struct {
		Scenario *vfGWScenario `json:"scenario"`
	}
	if err := json.Unmarshal(raw, &c); err != nil || c.Scenario == nil {
		r.harnessError("bad replay case: %v", err)
		return
	}
	sc := c.Scenario
	vfReplayCase(r, &vfExploreCfg{Scenario: sc, Name: sc.Name, MaxDepth: sc.Depth, Bubble: true,
		New: func(x *vfExec) vfInstance { return mk(x, sc) }}, raw)
}

func vfKeys(m map[string]bool) []string {
	var out []string
	for k, v := range m {
		if v {
			out = append(out, k)
		}
	}
	sort.Strings(out)
	return out
}

func vfDiffSet(a, b map[string]bool) []string { // a \ b
	var out []string
	for k, v := range a {
		if v && !b[k] {
			out = append(out, k)
		}
	}
	sort.Strings(out)
	return out
}
