package pubsub

// C19: the event trace is a faithful account from which state can be rebuilt.
// A trace replayer is fed every TraceEvent the in-memory EventTracer receives
// and compared with the node at every quiescent state: JOIN/LEAVE alternation
// and agreement with the real joins, peer set and meshes rebuilt from
// ADD_PEER / REMOVE_PEER / GRAFT / PRUNE / JOIN / LEAVE, DELIVER_MESSAGE and
// PUBLISH_MESSAGE multiplicities, SEND_RPC metadata against the frames the fake
// peers actually received.

import (
	"encoding/json"
	"fmt"
	"sort"
	"strings"

	pb "github.com/libp2p/go-libp2p-pubsub/pb"
	"github.com/libp2p/go-libp2p/core/peer"
)

type vfC19Inst struct {
	*vfGWInst
	joined   map[string]bool
	peers    map[string]bool
	mesh     map[string]map[string]bool
	deliver  map[string]int
	publish  int
	lpubs    int
	helloGen map[string]int
	pending  map[string][]string // traced SEND_RPC events not yet matched by a frame, per peer
}

func vfMetaRender(m *pb.TraceEvent_RPCMeta, g *vfGW) string {
	var parts []string
	var subs []string
	for _, s := range m.GetSubscription() {
		x := "-"
		if s.GetSubscribe() {
			x = "+"
		}
		subs = append(subs, x+s.GetTopic())
	}
	sort.Strings(subs)
	if len(subs) > 0 {
		parts = append(parts, "SUB["+strings.Join(subs, ",")+"]")
	}
	for _, mm := range m.GetMessages() {
		parts = append(parts, fmt.Sprintf("MSG[%s:%x]", mm.GetTopic(), mm.GetMessageID()))
	}
	if c := m.GetControl(); c != nil {
		var gr, pr, ih, iw, dw []string
		for _, x := range c.GetGraft() {
			gr = append(gr, x.GetTopic())
		}
		for _, x := range c.GetPrune() {
			s := x.GetTopic()
			var px []string
			for _, p := range x.GetPeers() {
				px = append(px, vfName(peer.ID(p)))
			}
			sort.Strings(px)
			if len(px) > 0 {
				s += "/px(" + strings.Join(px, "+") + ")"
			}
			pr = append(pr, s)
		}
		ids := func(l [][]byte) string {
			var o []string
			for _, b := range l {
				o = append(o, fmt.Sprintf("%x", b))
			}
			sort.Strings(o)
			return strings.Join(o, ",")
		}
		for _, x := range c.GetIhave() {
			ih = append(ih, x.GetTopic()+":"+ids(x.GetMessageIDs()))
		}
		for _, x := range c.GetIwant() {
			iw = append(iw, ids(x.GetMessageIDs()))
		}
		for _, x := range c.GetIdontwant() {
			dw = append(dw, ids(x.GetMessageIDs()))
		}
		for _, l := range []*[]string{&gr, &pr, &ih, &iw, &dw} {
			sort.Strings(*l)
		}
		add := func(k string, l []string, sep string) {
			if len(l) > 0 {
				parts = append(parts, k+"["+strings.Join(l, sep)+"]")
			}
		}
		add("GRAFT", gr, ",")
		add("PRUNE", pr, ",")
		add("IHAVE", ih, ";")
		add("IWANT", iw, ";")
		add("IDONTWANT", dw, ";")
	}
	if len(parts) == 0 {
		return "EMPTY"
	}
	return strings.Join(parts, " ")
}

// the same rendering computed from a frame that really crossed the wire
func vfFrameAsMeta(r *RPC, g *vfGW) string {
	if r == nil {
		return "<undecodable>"
	}
	var parts []string
	var subs []string
	for _, s := range r.GetSubscriptions() {
		x := "-"
		if s.GetSubscribe() {
			x = "+"
		}
		subs = append(subs, x+s.GetTopicid())
	}
	sort.Strings(subs)
	if len(subs) > 0 {
		parts = append(parts, "SUB["+strings.Join(subs, ",")+"]")
	}
	for _, m := range r.GetPublish() {
		parts = append(parts, fmt.Sprintf("MSG[%s:%x]", m.GetTopic(), DefaultMsgIdFn(m)))
	}
	if c := r.GetControl(); c != nil {
		var gr, pr, ih, iw, dw []string
		for _, x := range c.GetGraft() {
			gr = append(gr, x.GetTopicID())
		}
		for _, x := range c.GetPrune() {
			s := x.GetTopicID()
			var px []string
			for _, p := range x.GetPeers() {
				px = append(px, vfName(peer.ID(p.GetPeerID())))
			}
			sort.Strings(px)
			if len(px) > 0 {
				s += "/px(" + strings.Join(px, "+") + ")"
			}
			pr = append(pr, s)
		}
		ids := func(l []string) string {
			var o []string
			for _, b := range l {
				o = append(o, fmt.Sprintf("%x", b))
			}
			sort.Strings(o)
			return strings.Join(o, ",")
		}
		for _, x := range c.GetIhave() {
			ih = append(ih, x.GetTopicID()+":"+ids(x.GetMessageIDs()))
		}
		for _, x := range c.GetIwant() {
			iw = append(iw, ids(x.GetMessageIDs()))
		}
		for _, x := range c.GetIdontwant() {
			dw = append(dw, ids(x.GetMessageIDs()))
		}
		for _, l := range []*[]string{&gr, &pr, &ih, &iw, &dw} {
			sort.Strings(*l)
		}
		add := func(k string, l []string, sep string) {
			if len(l) > 0 {
				parts = append(parts, k+"["+strings.Join(l, sep)+"]")
			}
		}
		add("GRAFT", gr, ",")
		add("PRUNE", pr, ",")
		add("IHAVE", ih, ";")
		add("IWANT", iw, ";")
		add("IDONTWANT", dw, ";")
	}
	if len(parts) == 0 {
		return "EMPTY"
	}
	return strings.Join(parts, " ")
}

func (in *vfC19Inst) Apply(ev string, judge bool) string {
	g := in.g
	preGen := map[string]int{}
	for _, name := range g.order {
		f := g.fakes[name]
		f.mu.Lock()
		preGen[name] = f.nOut
		f.mu.Unlock()
	}
	pre := in.last
	obs := in.vfGWInst.Apply(ev, judge)
	post := in.last
	evs := g.trace.take()
	f := strings.Split(strings.SplitN(ev, "!", 2)[0], ":")
	sends := map[string][]string{}
	drops := 0
	pubs := 0
	for _, e := range evs {
		switch e.GetType() {
		case pb.TraceEvent_JOIN:
			t := e.GetJoin().GetTopic()
			if in.joined[t] {
				in.bad("c19:join-twice", "JOIN traced for topic %s which the trace already shows as joined", t)
			}
			in.joined[t] = true
			if in.mesh[t] == nil {
				in.mesh[t] = map[string]bool{}
			}
		case pb.TraceEvent_LEAVE:
			t := e.GetLeave().GetTopic()
			if !in.joined[t] {
				in.bad("c19:leave-without-join", "LEAVE traced for topic %s which the trace does not show as joined", t)
			}
			delete(in.joined, t)
			delete(in.mesh, t)
		case pb.TraceEvent_ON_NEW_OUTBOUND_STREAM:
			in.peers[vfName(peer.ID(e.GetOnNewOutboundStream().GetPeerID()))] = true
		case pb.TraceEvent_ON_CLOSED_OUTBOUND_STREAM:
			p := vfName(peer.ID(e.GetOnClosedOutboundStream().GetPeerID()))
			delete(in.peers, p)
			for _, m := range in.mesh {
				delete(m, p)
			}
		case pb.TraceEvent_GRAFT:
			t := e.GetGraft().GetTopic()
			if in.mesh[t] == nil {
				in.mesh[t] = map[string]bool{}
			}
			in.mesh[t][vfName(peer.ID(e.GetGraft().GetPeerID()))] = true
		case pb.TraceEvent_PRUNE:
			t := e.GetPrune().GetTopic()
			delete(in.mesh[t], vfName(peer.ID(e.GetPrune().GetPeerID())))
		case pb.TraceEvent_DELIVER_MESSAGE:
			id := string(e.GetDeliverMessage().GetMessageID())
			in.deliver[id]++
			if in.deliver[id] > 1 {
				in.bad("c19:deliver-twice", "message %s has %d DELIVER_MESSAGE events", g.idLabel(id), in.deliver[id])
			}
		case pb.TraceEvent_PUBLISH_MESSAGE:
			pubs++
		case pb.TraceEvent_SEND_RPC:
			to := vfName(peer.ID(e.GetSendRPC().GetSendTo()))
			sends[to] = append(sends[to], vfMetaRender(e.GetSendRPC().GetMeta(), g))
			in.pending[to] = append(in.pending[to], vfMetaRender(e.GetSendRPC().GetMeta(), g))
		case pb.TraceEvent_DROP_RPC:
			drops++
		}
	}
	// (the monitor runs on every event, also while replaying a prefix; reports are gated by the explorer)
	// local publication attempts
	if f[0] == "lpub" || f[0] == "lpubbatch" {
		in.count("local_publications")
		if pubs != 1 {
			in.bad("c19:publish-count", "one local publication produced %d PUBLISH_MESSAGE events", pubs)
		}
	} else if pubs != 0 {
		in.bad("c19:publish-count", "%d PUBLISH_MESSAGE events without a local publication", pubs)
	}
	// accepted messages have exactly one DELIVER event
	accepted := map[string]bool{}
	for _, d := range g.deliv {
		accepted[d.raw] = true
	}
	for _, name := range g.order {
		for _, r := range g.sentTo(name) {
			if f[0] == "iwant" {
				continue // IWANT replies re-send cached messages: not a new acceptance
			}
			for _, m := range r.GetPublish() {
				accepted[DefaultMsgIdFn(m)] = true
			}
		}
	}
	for id := range accepted {
		if in.deliver[id] != 1 {
			in.bad("c19:deliver-missing", "message %s was delivered / forwarded but has %d DELIVER_MESSAGE events", g.idLabel(id), in.deliver[id])
		}
		in.count("accepted_messages_matched")
	}
	// JOIN/LEAVE agree with the real joins
	for _, t := range g.cfg.Topics {
		real := post.MySubs[t] > 0 || post.MyRelays[t] > 0
		if g.cfg.Extra["fanout_only"] == t {
			real = post.MyRelays[t] > 0
		}
		if real != in.joined[t] {
			in.bad("c19:join-state", "trace says joined(%s)=%v but the node holds subs=%d relays=%d", t, in.joined[t], post.MySubs[t], post.MyRelays[t])
		}
	}
	// peer set and meshes rebuilt from the trace (when the node is quiet and nothing is gated)
	if g.cfg.Router != "flood" {
		if a, b := strings.Join(vfKeys(in.peers), ","), strings.Join(vfSortedKeys(post.Peers), ","); a != b {
			in.bad("c19:peer-set", "peer set rebuilt from the trace is [%s], the router's is [%s]", a, b)
		}
	}
	if g.n.gs != nil {
		for t, m := range post.Mesh {
			if a, b := strings.Join(vfKeys(in.mesh[t]), ","), strings.Join(vfKeys(m), ","); a != b {
				in.bad("c19:mesh", "mesh[%s] rebuilt from the trace is [%s], the router's is [%s]", t, a, b)
			}
		}
		for t, m := range in.mesh {
			if _, ok := post.Mesh[t]; !ok && len(m) > 0 {
				in.bad("c19:mesh", "the trace shows a mesh for %s with members %v but the router has none", t, vfKeys(m))
			}
		}
	}
	// SEND_RPC vs frames received (the hello packet of a new stream is not traced)
	for _, name := range g.order {
		if g.gated[name] {
			continue
		}
		var frames []string
		fk := g.fakes[name]
		hadInterest := false
		for _, t := range g.cfg.Topics {
			if pre.MyRelays[t] > 0 || (pre.MySubs[t] > 0 && g.cfg.Extra["fanout_only"] != t) {
				hadInterest = true
			}
		}
		for _, r := range g.wire[name] {
			if r.idx == 0 && r.gen > preGen[name] && hadInterest {
				continue // the hello packet of a new stream is not traced
			}
			frames = append(frames, vfFrameAsMeta(r.rpc, g))
		}
		// every frame must consume one traced SEND_RPC to that peer (frames may arrive in a later
		// step than their trace event when the stream was still being opened)
		for _, fr := range frames {
			k := -1
			for i, s := range in.pending[name] {
				if s == fr {
					k = i
					break
				}
			}
			if k < 0 {
				in.bad("c19:send-rpc-mismatch", "%s received frame [%s] without a matching SEND_RPC event (unmatched events: %v)", name, fr, in.pending[name])
				continue
			}
			in.pending[name] = append(in.pending[name][:k:k], in.pending[name][k+1:]...)
			in.count("frames_matched_with_send_rpc")
		}
		// when the peer has a live stream and the node is quiet, nothing traced as sent may be missing
		if post.Queues[name] && fk.outAlive() && len(in.pending[name]) > 0 {
			in.bad("c19:send-rpc-unmatched", "SEND_RPC events to %s without a frame on the wire although the stream is up and the node is quiet: %v", name, in.pending[name])
			in.pending[name] = nil
		}
		if !post.Queues[name] {
			in.pending[name] = nil // the queue (and what it held) is gone
		}
	}
	return obs
}

func (in *vfC19Inst) Canon() string {
	var sb strings.Builder
	sb.WriteString(in.vfGWInst.Canon())
	var dl []string
	for id, n := range in.deliver {
		dl = append(dl, fmt.Sprintf("%s=%d", in.g.idLabel(id), n))
	}
	sort.Strings(dl)
	fmt.Fprintf(&sb, "\ntrace: joined=%v peers=%v deliver=%v pending=%v", vfKeys(in.joined), vfKeys(in.peers), dl, in.pending)
	for _, t := range vfSortedKeys(in.mesh) {
		fmt.Fprintf(&sb, " mesh[%s]=%v", t, vfKeys(in.mesh[t]))
	}
	return sb.String()
}

func vfC19Scenarios(thorough bool) []*vfGWScenario {
	var out []*vfGWScenario
	d := 4
	if thorough {
		d = 6
	}
	msgs := map[string]vfMsgSpec{"m1": {Topic: "t", Author: "x", Seq: 1, Size: 32}, "m2": {Topic: "t", Author: "x", Seq: 2, Size: 32}}
	for _, router := range []string{"flood", "random", "gossip"} {
		proto := map[string]string{"flood": "fs", "random": "rs", "gossip": "v11"}[router]
		peers := []vfPeerCfg{{Name: "a", Proto: proto, IP: "10.0.0.1"}, {Name: "b", Proto: proto, IP: "10.0.0.2"}}
		out = append(out, &vfGWScenario{Name: router + "-api", Cfg: vfGWCfg{Router: router, Peers: peers, Topics: []string{"t", "u"}, Params: "d2", Tracer: true, Prefix: []string{"conn:a", "sub:a:t"}, SeenTTL: 3600},
			Alphabet: []string{"join:t", "leave:t", "relay:t", "unrelay:t", "join:u", "leave:u", "conn:b", "disc:a", "conn:a", "sub:b:t", "sub:a:t", "pub:a:m1", "pub:b:m1", "pubdup:a:m2", "lpub:t:p1", "lpub:u:p2", "lpub:t:p3:key", "hb", "outreset:a"},
			Msgs:     msgs, Depth: d, MaxSubs: 2})
		if router == "gossip" {
			// batch publication (gossipsub only), ordinary and local-only: the same events as for a single publication
			sc := out[len(out)-1]
			sc.Alphabet = append(sc.Alphabet, "lpubbatch:t:p4:local", "lpubbatch:t:p5")
		}
	}
	p4 := []vfPeerCfg{{Name: "a", Proto: "v11", IP: "10.0.0.1"}, {Name: "b", Proto: "v12", IP: "10.0.0.2", Outbound: true}, {Name: "c", Proto: "v10", IP: "10.0.0.3"}, {Name: "d", Proto: "fs", IP: "10.0.0.4"}}
	out = append(out, &vfGWScenario{Name: "gossip-mesh", Cfg: vfGWCfg{Router: "gossip", Peers: p4, Topics: []string{"t"}, Params: "d2", Scoring: true, Tracer: true, SeenTTL: 3600,
		Prefix: []string{"conn:a", "conn:b", "conn:c", "conn:d", "sub:a:t", "sub:b:t", "sub:c:t", "sub:d:t"}},
		Alphabet: []string{"join:t", "leave:t", "hb", "graft:a:t", "prune:a:t", "graft:c:t", "prune:b:t:8", "score:a:-1", "score:b:-1", "disc:a", "conn:a", "sub:a:t", "pub:b:m1", "iwant:a:m1", "ihave:a:t:m2", "lpub:t:p1", "adv:2500"},
		Msgs:     msgs, Depth: d})
	// a full mesh (Dhi members) and more inbound peers that GRAFT: the refusals (answered with PRUNE) are not additions
	{
		p5 := []vfPeerCfg{{Name: "a", Proto: "v11", IP: "10.0.0.1"}, {Name: "b", Proto: "v12", IP: "10.0.0.2"}, {Name: "c", Proto: "v11", IP: "10.0.0.3"}, {Name: "e", Proto: "v11", IP: "10.0.0.5"}, {Name: "f", Proto: "v12", IP: "10.0.0.6", Outbound: true}}
		out = append(out, &vfGWScenario{Name: "gossip-full-mesh", Cfg: vfGWCfg{Router: "gossip", Peers: p5, Topics: []string{"t"}, Params: "d2", Scoring: true, Tracer: true, SeenTTL: 3600,
			Prefix: []string{"conn:a", "conn:b", "conn:c", "conn:e", "conn:f", "sub:a:t", "sub:b:t", "sub:c:t", "sub:e:t", "sub:f:t", "join:t", "graft:a:t", "graft:b:t", "graft:c:t"}},
			Alphabet: []string{"graft:e:t", "graft:f:t", "graft:a:t", "prune:a:t", "hb", "score:e:-1", "leave:t", "join:t"}, Msgs: msgs, Depth: d})
	}
	// stream-level life of a mesh peer, among them a peer that is only ever inbound (our stream to it is still being
	// opened or fails) and GRAFTs itself in: whatever removes it from the mesh must show in the trace
	pq := []vfPeerCfg{{Name: "p", Proto: "v11", IP: "10.0.0.1"}, {Name: "q", Proto: "v12", IP: "10.0.0.2"}}
	out = append(out, &vfGWScenario{Name: "gossip-streams", Cfg: vfGWCfg{Router: "gossip", Peers: pq, Topics: []string{"t"}, Params: "d2", Scoring: true, Tracer: true, SeenTTL: 3600,
		Prefix: []string{"conn:q", "sub:q:t", "join:t", "hold:p", "conn:p", "sub:p:t"}},
		Alphabet: []string{"graft:p:t", "prune:p:t", "inclose:p", "inreset:p", "inopen:p", "release:p", "failstream:p", "outreset:p", "disc:p", "conn:p", "sub:p:t", "hb", "adv:1100"},
		Msgs:     msgs, Depth: d + 1})
	// a mesh peer that has stopped reading, with a queue of two: what the queue refuses (forwarded messages and the
	// urgent IDONTWANTs alike) is traced as dropped, what it accepts as sent, and once the peer reads again the frames
	// it gets are exactly the ones traced as sent
	{
		ps := []vfPeerCfg{{Name: "a", Proto: "v12", IP: "10.0.0.1"}, {Name: "h", Proto: "v12", IP: "10.0.0.2"}}
		m4 := map[string]vfMsgSpec{"m1": {Topic: "t", Author: "x", Seq: 1, Size: 32}, "m2": {Topic: "t", Author: "x", Seq: 2, Size: 32}, "m3": {Topic: "t", Author: "x", Seq: 3, Size: 32}, "m4": {Topic: "t", Author: "x", Seq: 4, Size: 32}}
		out = append(out, &vfGWScenario{Name: "gossip-stalled-mesh-peer", Cfg: vfGWCfg{Router: "gossip", Peers: ps, Topics: []string{"t"}, Params: "d2", Scoring: true, Tracer: true, SeenTTL: 3600, QueueSize: 2,
			Prefix: []string{"conn:a", "sub:a:t", "conn:h", "sub:h:t", "join:t", "graft:a:t", "gate:a"}},
			Alphabet: []string{"pub:h:m1", "pub:h:m2", "pub:h:m3", "pub:h:m4", "lpub:t:p1", "hb", "ungate:a", "gate:a"}, Msgs: m4, Depth: d + 1})
	}
	out = append(out, &vfGWScenario{Name: "gossip-fanoutonly", Cfg: vfGWCfg{Router: "gossip", Peers: p4[:2], Topics: []string{"t", "u"}, Params: "d2", Tracer: true, SeenTTL: 3600, Extra: map[string]string{"fanout_only": "t"},
		Prefix: []string{"conn:a", "sub:a:t"}},
		Alphabet: []string{"join:t", "leave:t", "join:u", "leave:u", "relay:u", "unrelay:u", "lpub:t:p1", "lpub:t:p2", "lpub:t:p3:key", "hb", "conn:b", "sub:b:t"}, Msgs: msgs, Depth: d})
	return out
}

func vfC19Mk(x *vfExec, sc *vfGWScenario) vfInstance {
	base := newVfGWInst(x, sc, nil)
	in := &vfC19Inst{vfGWInst: base, joined: map[string]bool{}, peers: map[string]bool{}, mesh: map[string]map[string]bool{}, deliver: map[string]int{}, pending: map[string][]string{}}
	// the state the prefix built is the base line the trace is replayed onto (the prefix's own trace is not kept)
	s0 := base.last
	for p := range s0.Peers {
		in.peers[p] = true
	}
	for t, m := range s0.Mesh {
		in.joined[t] = true
		in.mesh[t] = map[string]bool{}
		for p := range m {
			in.mesh[t][p] = true
		}
	}
	for t, n := range s0.MySubs {
		if n > 0 {
			in.joined[t] = true
		}
	}
	for t, n := range s0.MyRelays {
		if n > 0 {
			in.joined[t] = true
		}
	}
	return in
}

func init() {
	vfRegister("C19", &vfCheck{
		run: func(r *vfRun) {
			if _, ok := r.nextCase(); ok {
				vfExplore(r, vfBatchCfg(r.thorough, "c19batch"))
			}
			vfRunGWScenarios(r, vfC19Scenarios(r.thorough), vfC19Mk)
		},
		replay: func(r *vfRun, raw json.RawMessage) {
			var c struct {
				Scenario struct {
					Part string `json:"part"`
				} `json:"scenario"`
			}
			json.Unmarshal(raw, &c)
			if c.Scenario.Part == "batch" {
				vfReplayCase(r, vfBatchCfg(true, "c19batch"), raw)
				return
			}
			vfReplayGWScenario(r, raw, vfC19Mk)
		},
	})
}
