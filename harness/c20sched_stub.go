//go:build !vfsched

package pubsub

import "encoding/json"

func vfC20SchedRun(r *vfRun)                         { r.harnessError("sched variant not built") }
func vfC20SchedReplay(r *vfRun, raw json.RawMessage) {}
