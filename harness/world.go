package pubsub

// The closed world around real PubSub nodes: a stub host.Host, harness-owned
// connections and streams, and scripted fake peers.  Everything here lives
// inside one synctest bubble, so every blocking operation on these objects is
// durable and synctest.Wait() is an exact quiescence test.
//
// Stream semantics (see DESIGN.md §2.2): a stream is two independent
// directions.  Close() closes the caller's write direction (the remote reader
// drains, then sees EOF) and fails the caller's own pending/future reads;
// Reset() fails both directions at both ends; writes are one complete frame
// per call and may be gated (blocked) by the harness.

import (
	"context"
	"crypto/ed25519"
	"crypto/sha256"
	"encoding/binary"
	"errors"
	"fmt"
	"io"
	"sort"
	"sync"
	"time"

	"github.com/libp2p/go-libp2p/core/connmgr"
	"github.com/libp2p/go-libp2p/core/crypto"
	"github.com/libp2p/go-libp2p/core/event"
	"github.com/libp2p/go-libp2p/core/host"
	"github.com/libp2p/go-libp2p/core/network"
	"github.com/libp2p/go-libp2p/core/peer"
	"github.com/libp2p/go-libp2p/core/peerstore"
	"github.com/libp2p/go-libp2p/core/protocol"
	"github.com/libp2p/go-libp2p/p2p/host/eventbus"
	ma "github.com/multiformats/go-multiaddr"
)

// ---------------------------------------------------------------- identities

type vfIdent struct {
	id   peer.ID
	priv crypto.PrivKey
	name string
}

var (
	vfIdentMu    sync.Mutex
	vfIdentCache = map[string]*vfIdent{}
	vfIdentByID  = map[peer.ID]*vfIdent{}
)

// vfIdentity returns the deterministic Ed25519 identity called name.
func vfIdentity(name string) *vfIdent {
	vfIdentMu.Lock()
	defer vfIdentMu.Unlock()
	if id, ok := vfIdentCache[name]; ok {
		return id
	}
	seed := sha256.Sum256([]byte("vf-identity:" + name))
	std := ed25519.NewKeyFromSeed(seed[:])
	priv, err := crypto.UnmarshalEd25519PrivateKey(std)
	if err != nil {
		panic(err)
	}
	pid, err := peer.IDFromPrivateKey(priv)
	if err != nil {
		panic(err)
	}
	ident := &vfIdent{id: pid, priv: priv, name: name}
	vfIdentCache[name] = ident
	vfIdentByID[pid] = ident
	return ident
}

// vfName maps a peer ID back to its harness label (for canonical output).
func vfName(p peer.ID) string {
	vfIdentMu.Lock()
	defer vfIdentMu.Unlock()
	if id, ok := vfIdentByID[p]; ok {
		return id.name
	}
	if p == "" {
		return "<none>"
	}
	return "?" + fmt.Sprintf("%x", []byte(p))
}

func vfNames(ps []peer.ID) []string {
	out := make([]string, 0, len(ps))
	for _, p := range ps {
		out = append(out, vfName(p))
	}
	sort.Strings(out)
	return out
}

// ---------------------------------------------------------------- pipes / streams

var errVfReset = errors.New("vf: stream reset")
var errVfClosed = errors.New("vf: stream closed")
var errVfTimeout = errors.New("vf: write deadline exceeded")

// vfPipe is one direction of a stream.
type vfPipe struct {
	mu          sync.Mutex
	buf         []byte        // delivered, readable bytes
	held        [][]byte      // frames written but held by the link layer (E-NET)
	hold        bool          // hold frames instead of delivering them
	closed      bool          // writer closed its side: EOF after buf is drained
	reset       bool          // both ends fail
	readClosed  bool          // reader closed its side: reads fail, writes are discarded
	wake        chan struct{} // reader wake-up (cap 1)
	gated       bool          // writes block while set
	permits     int           // writes allowed through a closed gate (letOne)
	gateCh      chan struct{} // closed on ungate / reset
	sink        func([]byte)  // if set, written frames go here instead of buf
	onHeld      func(*vfPipe) // link layer notification
	writes      int
	label       string
	blockedW    int // writers currently blocked on the gate
	deliveredFr int
}

func newVfPipe(label string) *vfPipe {
	return &vfPipe{wake: make(chan struct{}, 1), gateCh: make(chan struct{}), label: label}
}

func (p *vfPipe) poke() {
	select {
	case p.wake <- struct{}{}:
	default:
	}
}

func (p *vfPipe) read(b []byte) (int, error) {
	for {
		p.mu.Lock()
		if p.reset {
			p.mu.Unlock()
			return 0, errVfReset
		}
		if p.readClosed {
			p.mu.Unlock()
			return 0, errVfClosed
		}
		if len(p.buf) > 0 {
			n := copy(b, p.buf)
			p.buf = p.buf[n:]
			if len(p.buf) > 0 {
				p.poke()
			}
			p.mu.Unlock()
			return n, nil
		}
		if p.closed {
			p.mu.Unlock()
			return 0, io.EOF
		}
		p.mu.Unlock()
		<-p.wake
	}
}

func (p *vfPipe) write(b []byte, deadline time.Time) (int, error) {
	for {
		p.mu.Lock()
		if p.reset {
			p.mu.Unlock()
			return 0, errVfReset
		}
		if p.closed {
			p.mu.Unlock()
			return 0, errVfClosed
		}
		if !p.gated {
			break
		}
		if p.permits > 0 {
			p.permits-- // the harness lets exactly one write through the gate
			break
		}
		ch := p.gateCh
		p.blockedW++
		p.mu.Unlock()
		var tm <-chan time.Time
		var t *time.Timer
		if !deadline.IsZero() {
			t = time.NewTimer(time.Until(deadline))
			tm = t.C
		}
		select {
		case <-ch:
		case <-tm:
		}
		if t != nil {
			t.Stop()
		}
		p.mu.Lock()
		p.blockedW--
		timedOut := !deadline.IsZero() && !time.Now().Before(deadline) && p.gated && !p.reset
		p.mu.Unlock()
		if timedOut {
			return 0, errVfTimeout
		}
	}
	// p.mu held
	p.writes++
	frame := append([]byte(nil), b...)
	switch {
	case p.readClosed:
		// discarded
	case p.sink != nil:
		sink := p.sink
		p.mu.Unlock()
		sink(frame)
		return len(b), nil
	case p.hold:
		p.held = append(p.held, frame)
		cb := p.onHeld
		p.mu.Unlock()
		if cb != nil {
			cb(p)
		}
		return len(b), nil
	default:
		p.buf = append(p.buf, frame...)
		p.deliveredFr++
		p.poke()
	}
	p.mu.Unlock()
	return len(b), nil
}

// deliverOne makes the oldest held frame readable.
func (p *vfPipe) deliverOne() bool {
	p.mu.Lock()
	defer p.mu.Unlock()
	if len(p.held) == 0 {
		return false
	}
	f := p.held[0]
	p.held = p.held[1:]
	if !p.readClosed && !p.reset {
		p.buf = append(p.buf, f...)
		p.deliveredFr++
		p.poke()
	}
	return true
}

func (p *vfPipe) heldCount() int {
	p.mu.Lock()
	defer p.mu.Unlock()
	return len(p.held)
}

func (p *vfPipe) closeWrite() {
	p.mu.Lock()
	p.closed = true
	p.poke()
	p.mu.Unlock()
}

func (p *vfPipe) closeRead() {
	p.mu.Lock()
	p.readClosed = true
	p.poke()
	p.mu.Unlock()
}

func (p *vfPipe) doReset() {
	p.mu.Lock()
	if !p.reset {
		p.reset = true
		p.held = nil
		close(p.gateCh)
		p.gateCh = make(chan struct{})
		p.gated = false
	}
	p.poke()
	p.mu.Unlock()
}

// letOne lets exactly one (blocked or future) write pass a closed gate.
func (p *vfPipe) letOne() {
	p.mu.Lock()
	if p.gated {
		p.permits++
		close(p.gateCh)
		p.gateCh = make(chan struct{})
	}
	p.mu.Unlock()
}

func (p *vfPipe) setGate(g bool) {
	p.mu.Lock()
	if p.gated && !g {
		close(p.gateCh)
		p.gateCh = make(chan struct{})
	}
	p.gated = g
	p.mu.Unlock()
}

func (p *vfPipe) state() string {
	p.mu.Lock()
	defer p.mu.Unlock()
	s := ""
	if p.reset {
		s += "R"
	}
	if p.closed {
		s += "C"
	}
	if p.readClosed {
		s += "r"
	}
	if p.gated {
		s += fmt.Sprintf("G%d", p.blockedW)
	}
	if len(p.held) > 0 {
		s += fmt.Sprintf("H%d", len(p.held))
	}
	if len(p.buf) > 0 {
		s += fmt.Sprintf("B%d", len(p.buf))
	}
	if s == "" {
		s = "open"
	}
	return s
}

// vfStream is one endpoint of a bidirectional stream.
type vfStream struct {
	network.Stream // nil: any method not implemented below panics loudly
	w              *vfWorld
	conn           *vfConn
	proto          protocol.ID
	in, out        *vfPipe
	id             string
	mu             sync.Mutex
	wdeadline      time.Time
	peerEnd        *vfStream
	outboundLocal  bool // opened by the local side
	resets, closes int
	dead           bool
}

func (s *vfStream) Read(b []byte) (int, error) { return s.in.read(b) }
func (s *vfStream) Write(b []byte) (int, error) {
	s.mu.Lock()
	d := s.wdeadline
	s.mu.Unlock()
	return s.out.write(b, d)
}
func (s *vfStream) Close() error {
	s.mu.Lock()
	s.closes++
	s.mu.Unlock()
	s.out.closeWrite()
	s.in.closeRead()
	s.w.streamGone(s)
	return nil
}
func (s *vfStream) CloseWrite() error { s.out.closeWrite(); return nil }
func (s *vfStream) CloseRead() error  { s.in.closeRead(); return nil }
func (s *vfStream) Reset() error {
	s.mu.Lock()
	s.resets++
	s.mu.Unlock()
	s.in.doReset()
	s.out.doReset()
	s.w.streamGone(s)
	if s.peerEnd != nil {
		s.w.streamGone(s.peerEnd)
	}
	return nil
}
func (s *vfStream) ResetWithError(network.StreamErrorCode) error { return s.Reset() }
func (s *vfStream) SetDeadline(t time.Time) error                { return s.SetWriteDeadline(t) }
func (s *vfStream) SetReadDeadline(time.Time) error              { return nil }
func (s *vfStream) SetWriteDeadline(t time.Time) error {
	s.mu.Lock()
	s.wdeadline = t
	s.mu.Unlock()
	return nil
}
func (s *vfStream) Protocol() protocol.ID         { return s.proto }
func (s *vfStream) SetProtocol(protocol.ID) error { return nil }
func (s *vfStream) Conn() network.Conn            { return s.conn }
func (s *vfStream) ID() string                    { return s.id }
func (s *vfStream) Stat() network.Stats {
	d := network.DirInbound
	if s.outboundLocal {
		d = network.DirOutbound
	}
	return network.Stats{Direction: d}
}

func (s *vfStream) vfCanon() string {
	return fmt.Sprintf("stream(%s %s rd=%s wr=%s)", s.id, s.proto, s.in.state(), s.out.state())
}

// vfConn is one endpoint's view of a connection.
type vfConn struct {
	network.Conn
	w             *vfWorld
	local, remote peer.ID
	dir           network.Direction
	limited       bool
	addr          ma.Multiaddr
	id            string
	mu            sync.Mutex
	streams       []*vfStream
}

func (c *vfConn) RemotePeer() peer.ID           { return c.remote }
func (c *vfConn) LocalPeer() peer.ID            { return c.local }
func (c *vfConn) RemoteMultiaddr() ma.Multiaddr { return c.addr }
func (c *vfConn) LocalMultiaddr() ma.Multiaddr  { return c.addr }
func (c *vfConn) ID() string                    { return c.id }
func (c *vfConn) IsClosed() bool                { return false }
func (c *vfConn) Stat() network.ConnStats {
	c.mu.Lock()
	defer c.mu.Unlock()
	return network.ConnStats{Stats: network.Stats{Direction: c.dir, Limited: c.limited}, NumStreams: len(c.streams)}
}
func (c *vfConn) GetStreams() []network.Stream {
	c.mu.Lock()
	defer c.mu.Unlock()
	out := make([]network.Stream, 0, len(c.streams))
	for _, s := range c.streams {
		out = append(out, s)
	}
	return out
}

// ---------------------------------------------------------------- world

type vfEndpoint interface {
	peerID() peer.ID
	supports(protocol.ID) bool
	protocols() []protocol.ID
	accept(s *vfStream) // an inbound stream arrived
}

type vfStreamPolicy int

const (
	vfStreamOK vfStreamPolicy = iota
	vfStreamFail
	vfStreamBlock // NewStream blocks until released (then re-evaluates) or ctx is done
)

type vfWorld struct {
	mu       sync.Mutex
	eps      map[peer.ID]vfEndpoint
	conns    map[[2]peer.ID]*vfConn // (local, remote)
	policy   map[[2]peer.ID]vfStreamPolicy
	release  map[[2]peer.ID]chan struct{}
	nstream  int
	nconn    int
	holdAll  bool      // E-NET: hold every frame between real nodes
	heldQ    []*vfPipe // pipes with held frames, in arrival order
	blockedN map[[2]peer.ID]int
	pairGen  map[[2]peer.ID]int
}

func newVfWorld() *vfWorld {
	return &vfWorld{eps: map[peer.ID]vfEndpoint{}, conns: map[[2]peer.ID]*vfConn{}, policy: map[[2]peer.ID]vfStreamPolicy{},
		release: map[[2]peer.ID]chan struct{}{}, blockedN: map[[2]peer.ID]int{}}
}

func (w *vfWorld) add(ep vfEndpoint) { w.eps[ep.peerID()] = ep }

func (w *vfWorld) connected(a, b peer.ID) bool {
	w.mu.Lock()
	defer w.mu.Unlock()
	_, ok := w.conns[[2]peer.ID{a, b}]
	return ok
}

func vfIPAddr(ip string) ma.Multiaddr {
	if ip == "" {
		ip = "127.0.0.1"
	}
	return ma.StringCast("/ip4/" + ip + "/tcp/4001")
}

// connect establishes a connection dialled by a; ipOfA / ipOfB are the
// addresses each side sees for the other.
func (w *vfWorld) connect(a, b peer.ID, ipOfA, ipOfB string) {
	w.mu.Lock()
	if _, ok := w.conns[[2]peer.ID{a, b}]; ok {
		w.mu.Unlock()
		return
	}
	w.nconn++
	id := fmt.Sprintf("c%d", w.nconn)
	w.conns[[2]peer.ID{a, b}] = &vfConn{w: w, local: a, remote: b, dir: network.DirOutbound, addr: vfIPAddr(ipOfB), id: id}
	w.conns[[2]peer.ID{b, a}] = &vfConn{w: w, local: b, remote: a, dir: network.DirInbound, addr: vfIPAddr(ipOfA), id: id}
	epa, epb := w.eps[a], w.eps[b]
	w.mu.Unlock()
	// identify completes on both sides
	if h, ok := epa.(*vfHost); ok {
		h.identified(b, epb.protocols())
	}
	if h, ok := epb.(*vfHost); ok {
		h.identified(a, epa.protocols())
	}
}

func (w *vfWorld) disconnect(a, b peer.ID) {
	w.mu.Lock()
	ca, cb := w.conns[[2]peer.ID{a, b}], w.conns[[2]peer.ID{b, a}]
	delete(w.conns, [2]peer.ID{a, b})
	delete(w.conns, [2]peer.ID{b, a})
	epa, epb := w.eps[a], w.eps[b]
	// a dial that is still pending fails when the connection goes away
	for _, k := range [][2]peer.ID{{a, b}, {b, a}} {
		if ch, ok := w.release[k]; ok {
			close(ch)
			delete(w.release, k)
		}
	}
	w.mu.Unlock()
	for _, c := range []*vfConn{ca, cb} {
		if c == nil {
			continue
		}
		c.mu.Lock()
		ss := append([]*vfStream{}, c.streams...)
		c.mu.Unlock()
		for _, s := range ss {
			s.in.doReset()
			s.out.doReset()
			w.streamGone(s)
		}
	}
	if ca == nil {
		return
	}
	if h, ok := epa.(*vfHost); ok {
		h.disconnected(b)
	}
	if h, ok := epb.(*vfHost); ok {
		h.disconnected(a)
	}
}

func (w *vfWorld) streamGone(s *vfStream) {
	c := s.conn
	c.mu.Lock()
	for i, x := range c.streams {
		if x == s {
			c.streams = append(c.streams[:i:i], c.streams[i+1:]...)
			break
		}
	}
	s.dead = true
	c.mu.Unlock()
}

func (w *vfWorld) setPolicy(from, to peer.ID, p vfStreamPolicy) {
	w.mu.Lock()
	k := [2]peer.ID{from, to}
	w.policy[k] = p
	if ch, ok := w.release[k]; ok && p != vfStreamBlock {
		close(ch)
		delete(w.release, k)
	}
	w.mu.Unlock()
}

func (w *vfWorld) blockedDials(from, to peer.ID) int {
	w.mu.Lock()
	defer w.mu.Unlock()
	return w.blockedN[[2]peer.ID{from, to}]
}

// openStream implements NewStream for endpoint `from`.
func (w *vfWorld) openStream(ctx context.Context, from, to peer.ID, protos []protocol.ID) (*vfStream, error) {
	k := [2]peer.ID{from, to}
	for {
		w.mu.Lock()
		if _, ok := w.conns[k]; !ok {
			w.mu.Unlock()
			return nil, errors.New("vf: not connected")
		}
		pol := w.policy[k]
		if pol != vfStreamBlock {
			w.mu.Unlock()
			break
		}
		ch, ok := w.release[k]
		if !ok {
			ch = make(chan struct{})
			w.release[k] = ch
		}
		w.blockedN[k]++
		w.mu.Unlock()
		select {
		case <-ch:
			w.mu.Lock()
			w.blockedN[k]--
			w.mu.Unlock()
		case <-ctx.Done():
			w.mu.Lock()
			w.blockedN[k]--
			w.mu.Unlock()
			return nil, ctx.Err()
		}
	}
	w.mu.Lock()
	if w.policy[k] == vfStreamFail {
		w.mu.Unlock()
		return nil, errors.New("vf: stream open refused by environment")
	}
	cl, cr := w.conns[[2]peer.ID{from, to}], w.conns[[2]peer.ID{to, from}]
	remote := w.eps[to]
	if cl == nil || cr == nil || remote == nil {
		w.mu.Unlock()
		return nil, errors.New("vf: not connected")
	}
	var chosen protocol.ID
	for _, p := range protos {
		if remote.supports(p) {
			chosen = p
			break
		}
	}
	if chosen == "" {
		w.mu.Unlock()
		return nil, errors.New("vf: protocols not supported")
	}
	w.nstream++
	n := w.nstream
	if w.pairGen == nil {
		w.pairGen = map[[2]peer.ID]int{}
	}
	w.pairGen[k]++
	gen := w.pairGen[k]
	// labels are independent of the global order in which goroutines happened to open streams
	ab := newVfPipe(fmt.Sprintf("%s>%s#%d", vfName(from), vfName(to), gen))
	ba := newVfPipe(fmt.Sprintf("%s>%s#%d(back)", vfName(from), vfName(to), gen))
	_, fromReal := w.eps[from].(*vfHost)
	_, toReal := remote.(*vfHost)
	if w.holdAll && fromReal && toReal {
		ab.hold, ba.hold = true, true
		ab.onHeld, ba.onHeld = w.noteHeld, w.noteHeld
	}
	sl := &vfStream{w: w, conn: cl, proto: chosen, in: ba, out: ab, id: fmt.Sprintf("s%d", n), outboundLocal: true}
	sr := &vfStream{w: w, conn: cr, proto: chosen, in: ab, out: ba, id: fmt.Sprintf("s%d", n)}
	sl.peerEnd, sr.peerEnd = sr, sl
	cl.mu.Lock()
	cl.streams = append(cl.streams, sl)
	cl.mu.Unlock()
	cr.mu.Lock()
	cr.streams = append(cr.streams, sr)
	cr.mu.Unlock()
	w.mu.Unlock()
	remote.accept(sr)
	return sl, nil
}

func (w *vfWorld) noteHeld(p *vfPipe) {
	w.mu.Lock()
	w.heldQ = append(w.heldQ, p)
	w.mu.Unlock()
}

// pendingLinks returns the labels of pipes that hold undelivered frames, sorted.
func (w *vfWorld) pendingLinks() []*vfPipe {
	w.mu.Lock()
	defer w.mu.Unlock()
	seen := map[*vfPipe]bool{}
	var out []*vfPipe
	var keep []*vfPipe
	for _, p := range w.heldQ {
		if p.heldCount() == 0 {
			continue
		}
		keep = append(keep, p)
		if !seen[p] {
			seen[p] = true
			out = append(out, p)
		}
	}
	w.heldQ = keep
	sort.Slice(out, func(i, j int) bool { return out[i].label < out[j].label })
	return out
}

// ---------------------------------------------------------------- stub host

type vfHandler struct {
	proto protocol.ID
	match func(protocol.ID) bool
	fn    network.StreamHandler
}

type vfHost struct {
	host.Host
	w        *vfWorld
	ident    *vfIdent
	bus      event.Bus
	emitID   event.Emitter
	emitConn event.Emitter
	net      *vfNetwork
	pstore   *vfPeerstore
	cm       *vfConnMgr
	hmu      sync.Mutex
	handlers []vfHandler
	connects []peer.ID // host.Connect attempts (PX oracle)
	inbound  int
	slowDial bool // Connect hangs until its context ends (hmu)
}

func newVfHost(w *vfWorld, name string) *vfHost {
	h := &vfHost{w: w, ident: vfIdentity(name), bus: eventbus.NewBus()}
	h.net = &vfNetwork{h: h}
	h.pstore = &vfPeerstore{h: h}
	h.cm = &vfConnMgr{prot: map[string]struct{}{}, tags: map[string]int{}}
	var err error
	if h.emitID, err = h.bus.Emitter(new(event.EvtPeerIdentificationCompleted)); err != nil {
		panic(err)
	}
	if h.emitConn, err = h.bus.Emitter(new(event.EvtPeerConnectednessChanged)); err != nil {
		panic(err)
	}
	w.add(h)
	return h
}

func (h *vfHost) peerID() peer.ID                { return h.ident.id }
func (h *vfHost) ID() peer.ID                    { return h.ident.id }
func (h *vfHost) Peerstore() peerstore.Peerstore { return h.pstore }
func (h *vfHost) Network() network.Network       { return h.net }
func (h *vfHost) ConnManager() connmgr.ConnManager {
	return h.cm
}
func (h *vfHost) EventBus() event.Bus   { return h.bus }
func (h *vfHost) Addrs() []ma.Multiaddr { return nil }
func (h *vfHost) Close() error          { return nil }
func (h *vfHost) SetStreamHandler(pid protocol.ID, fn network.StreamHandler) {
	h.hmu.Lock()
	h.handlers = append(h.handlers, vfHandler{proto: pid, fn: fn})
	h.hmu.Unlock()
}
func (h *vfHost) SetStreamHandlerMatch(pid protocol.ID, m func(protocol.ID) bool, fn network.StreamHandler) {
	h.hmu.Lock()
	h.handlers = append(h.handlers, vfHandler{proto: pid, match: m, fn: fn})
	h.hmu.Unlock()
}
func (h *vfHost) RemoveStreamHandler(pid protocol.ID) {}
func (h *vfHost) handlerFor(p protocol.ID) network.StreamHandler {
	h.hmu.Lock()
	defer h.hmu.Unlock()
	for _, x := range h.handlers {
		if x.proto == p || (x.match != nil && x.match(p)) {
			return x.fn
		}
	}
	return nil
}
func (h *vfHost) supports(p protocol.ID) bool { return h.handlerFor(p) != nil }
func (h *vfHost) protocols() []protocol.ID {
	h.hmu.Lock()
	defer h.hmu.Unlock()
	var out []protocol.ID
	for _, x := range h.handlers {
		out = append(out, x.proto)
	}
	return out
}
func (h *vfHost) accept(s *vfStream) {
	fn := h.handlerFor(s.proto)
	h.hmu.Lock()
	h.inbound++
	h.hmu.Unlock()
	go fn(s)
}
func (h *vfHost) NewStream(ctx context.Context, p peer.ID, pids ...protocol.ID) (network.Stream, error) {
	s, err := h.w.openStream(ctx, h.ident.id, p, pids)
	if err != nil {
		return nil, err
	}
	return s, nil
}
func (h *vfHost) Connect(ctx context.Context, pi peer.AddrInfo) error {
	h.hmu.Lock()
	h.connects = append(h.connects, pi.ID)
	slow := h.slowDial
	h.hmu.Unlock()
	if slow {
		// a black hole: the dial hangs until the caller's deadline
		<-ctx.Done()
		return ctx.Err()
	}
	return errors.New("vf: dialing is not modelled")
}
func (h *vfHost) identified(p peer.ID, protos []protocol.ID) {
	h.emitID.Emit(event.EvtPeerIdentificationCompleted{Peer: p, Protocols: protos})
}
func (h *vfHost) disconnected(p peer.ID) {
	h.emitConn.Emit(event.EvtPeerConnectednessChanged{Peer: p, Connectedness: network.NotConnected})
}

type vfNetwork struct {
	network.Network
	h *vfHost
}

func (n *vfNetwork) Connectedness(p peer.ID) network.Connectedness {
	n.h.w.mu.Lock()
	defer n.h.w.mu.Unlock()
	c, ok := n.h.w.conns[[2]peer.ID{n.h.ident.id, p}]
	if !ok {
		return network.NotConnected
	}
	if c.limited {
		return network.Limited
	}
	return network.Connected
}
func (n *vfNetwork) ConnsToPeer(p peer.ID) []network.Conn {
	n.h.w.mu.Lock()
	defer n.h.w.mu.Unlock()
	if c, ok := n.h.w.conns[[2]peer.ID{n.h.ident.id, p}]; ok {
		return []network.Conn{c}
	}
	return nil
}
func (n *vfNetwork) Peers() []peer.ID {
	n.h.w.mu.Lock()
	defer n.h.w.mu.Unlock()
	var out []peer.ID
	for k := range n.h.w.conns {
		if k[0] == n.h.ident.id {
			out = append(out, k[1])
		}
	}
	sort.Slice(out, func(i, j int) bool { return out[i] < out[j] })
	return out
}
func (n *vfNetwork) LocalPeer() peer.ID { return n.h.ident.id }

type vfPeerstore struct {
	peerstore.Peerstore
	h *vfHost
}

func (ps *vfPeerstore) PrivKey(p peer.ID) crypto.PrivKey {
	vfIdentMu.Lock()
	defer vfIdentMu.Unlock()
	if id, ok := vfIdentByID[p]; ok {
		return id.priv
	}
	return nil
}
func (ps *vfPeerstore) AddAddrs(peer.ID, []ma.Multiaddr, time.Duration) {}
func (ps *vfPeerstore) Addrs(peer.ID) []ma.Multiaddr                    { return nil }

type vfConnMgr struct {
	connmgr.ConnManager
	mu   sync.Mutex
	prot map[string]struct{} // "peer|tag"
	tags map[string]int
}

func (c *vfConnMgr) Protect(p peer.ID, tag string) {
	c.mu.Lock()
	c.prot[string(p)+"|"+tag] = struct{}{}
	c.mu.Unlock()
}
func (c *vfConnMgr) Unprotect(p peer.ID, tag string) bool {
	c.mu.Lock()
	defer c.mu.Unlock()
	delete(c.prot, string(p)+"|"+tag)
	for k := range c.prot {
		if len(k) > len(p) && k[:len(p)] == string(p) {
			return true
		}
	}
	return false
}
func (c *vfConnMgr) IsProtected(p peer.ID, tag string) bool {
	c.mu.Lock()
	defer c.mu.Unlock()
	_, ok := c.prot[string(p)+"|"+tag]
	return ok
}
func (c *vfConnMgr) TagPeer(p peer.ID, tag string, v int) {
	c.mu.Lock()
	c.tags[string(p)+"|"+tag] = v
	c.mu.Unlock()
}
func (c *vfConnMgr) UntagPeer(p peer.ID, tag string) {
	c.mu.Lock()
	delete(c.tags, string(p)+"|"+tag)
	c.mu.Unlock()
}
func (c *vfConnMgr) protections() []string {
	c.mu.Lock()
	defer c.mu.Unlock()
	var out []string
	for k := range c.prot {
		out = append(out, k)
	}
	sort.Strings(out)
	return out
}

// ---------------------------------------------------------------- fake peers

type vfRecv struct {
	at  time.Duration // virtual time since world start
	rpc *RPC
	raw []byte
	gen int // which of the node's outbound streams carried it (1, 2, ...)
	idx int // index of the frame on that stream
}

// vfFake is a scripted remote peer: the harness plays its side of both streams.
type vfFake struct {
	w               *vfWorld
	ident           *vfIdent
	protos          []protocol.ID
	mu              sync.Mutex
	out             *vfStream // fake end of the stream the node opened to us (we receive)
	in              *vfStream // our end of the stream we opened to the node (we send)
	recv            []vfRecv
	t0              time.Time
	nOut            int // number of outbound streams the node opened to us so far
	bad             int // undecodable frames received
	lastGen, genIdx int
}

func newVfFake(w *vfWorld, name string, protos ...protocol.ID) *vfFake {
	f := &vfFake{w: w, ident: vfIdentity(name), protos: protos, t0: time.Now()}
	w.add(f)
	return f
}

func (f *vfFake) peerID() peer.ID { return f.ident.id }
func (f *vfFake) supports(p protocol.ID) bool {
	for _, x := range f.protos {
		if x == p {
			return true
		}
	}
	return false
}
func (f *vfFake) protocols() []protocol.ID { return f.protos }
func (f *vfFake) accept(s *vfStream) {
	f.mu.Lock()
	f.out = s
	f.nOut++
	f.mu.Unlock()
	s.in.mu.Lock()
	s.in.sink = f.onFrame
	s.in.mu.Unlock()
}

func (f *vfFake) onFrame(b []byte) {
	// one Write == one varint-framed RPC
	n, k := binary.Uvarint(b)
	rec := vfRecv{at: time.Since(f.t0), raw: b}
	if k > 0 && int(n) == len(b)-k {
		rpc := new(RPC)
		if err := rpc.Unmarshal(b[k:]); err == nil {
			rec.rpc = rpc
		}
	}
	f.mu.Lock()
	if rec.rpc == nil {
		f.bad++
	}
	if f.lastGen != f.nOut {
		f.lastGen, f.genIdx = f.nOut, 0
	}
	rec.gen, rec.idx = f.nOut, f.genIdx
	f.genIdx++
	f.recv = append(f.recv, rec)
	f.mu.Unlock()
}

// take returns and clears everything received since the last call.
func (f *vfFake) take() []vfRecv {
	f.mu.Lock()
	defer f.mu.Unlock()
	r := f.recv
	f.recv = nil
	return r
}

// openInbound opens our stream towards node h using protocol proto.
func (f *vfFake) openInbound(h *vfHost, proto protocol.ID) error {
	s, err := f.w.openStream(context.Background(), f.ident.id, h.ident.id, []protocol.ID{proto})
	if err != nil {
		return err
	}
	f.mu.Lock()
	f.in = s
	f.mu.Unlock()
	return nil
}

func vfFrame(rpc *RPC) []byte {
	body, err := rpc.Marshal()
	if err != nil {
		panic(err)
	}
	buf := make([]byte, binary.MaxVarintLen64+len(body))
	n := binary.PutUvarint(buf, uint64(len(body)))
	copy(buf[n:], body)
	return buf[:n+len(body)]
}

// send writes one RPC on our stream to the node.
func (f *vfFake) send(rpc *RPC) error {
	f.mu.Lock()
	s := f.in
	f.mu.Unlock()
	if s == nil {
		return errors.New("vf: no inbound stream")
	}
	_, err := s.Write(vfFrame(rpc))
	return err
}

func (f *vfFake) sendRaw(b []byte) error {
	f.mu.Lock()
	s := f.in
	f.mu.Unlock()
	if s == nil {
		return errors.New("vf: no inbound stream")
	}
	_, err := s.Write(b)
	return err
}

func (f *vfFake) inAlive() bool {
	f.mu.Lock()
	s := f.in
	f.mu.Unlock()
	if s == nil {
		return false
	}
	s.out.mu.Lock()
	defer s.out.mu.Unlock()
	return !s.out.closed && !s.out.reset
}

func (f *vfFake) outAlive() bool {
	f.mu.Lock()
	s := f.out
	f.mu.Unlock()
	if s == nil {
		return false
	}
	s.in.mu.Lock()
	defer s.in.mu.Unlock()
	return !s.in.reset && !s.in.closed
}

// streamStates summarises our view of both streams (part of the canonical state).
func (f *vfFake) streamStates() string {
	f.mu.Lock()
	defer f.mu.Unlock()
	s := ""
	if f.out != nil {
		s += "out[" + string(f.out.proto) + " rd=" + f.out.in.state() + " wr=" + f.out.out.state() + "]"
	}
	if f.in != nil {
		s += "in[" + string(f.in.proto) + " wr=" + f.in.out.state() + " rd=" + f.in.in.state() + "]"
	}
	return s
}
