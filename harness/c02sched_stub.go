//go:build !vfsched

package pubsub

import "encoding/json"

func vfC02SchedRun(r *vfRun)                         { r.harnessError("sched variant not built") }
func vfC02SchedReplay(r *vfRun, raw json.RawMessage) {}
