package pubsub

import (
	"encoding/json"
	"os"
)

func init() {
	vfRegister("C15", &vfCheck{
		run: func(r *vfRun) {
			if os.Getenv("VF_VARIANT") == "sched" {
				vfC15SchedRun(r)
				return
			}
			vfC15SeqRun(r)
		},
		replay: func(r *vfRun, raw json.RawMessage) {
			if vfC15SeqReplay(r, raw) {
				return
			}
			vfC15SchedReplay(r, raw)
		},
	})
}
