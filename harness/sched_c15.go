//go:build vfsched

package pubsub

// C15 (thread part): every interleaving of concurrent pushers, poppers,
// cancellers and closers on the real rpcQueue, whose sync / context imports are
// redirected to the controlled scheduler (internal/verifshim).  Oracle: every
// complete history linearises to the sequential reference; no call is left
// blocked that the reference says must return (lost wake-up); the queue never
// exceeds its capacity.

import (
	"context"
	"encoding/json"
	"fmt"
	"sort"
	"strings"
	"time"

	"github.com/libp2p/go-libp2p-pubsub/internal/verifshim/vsync"
	"github.com/libp2p/go-libp2p/core/peer"
)

type vfQScenario struct {
	Part     string     `json:"part"`
	Name     string     `json:"name"`
	Capacity int        `json:"capacity"`
	Initial  []string   `json:"initial,omitempty"` // pushes before the threads start: "a", "!a" (urgent)
	Threads  [][]string `json:"threads"`
	Variant  string     `json:"variant"`
}

type vfQEvent struct {
	thread int
	op     string
	call   bool
	res    string
	idx    int // op index (thread, k)
}

type vfQOp struct {
	thread, k int
	op        string
	callAt    int
	retAt     int // -1 pending
	res       string
}

type vfQRun struct {
	sc      *vfQScenario
	q       *rpcQueue
	ctx     [2]context.Context
	cancel  [2]context.CancelFunc
	hist    []string
	ops     []*vfQOp
	overCap bool
	sched   *vsync.Sched
}

func vfQBuild(sc *vfQScenario) *vfQRun {
	r := &vfQRun{sc: sc, q: newRpcQueue(sc.Capacity)}
	for i := range r.ctx {
		r.ctx[i], r.cancel[i] = context.WithCancel(context.Background())
	}
	for _, it := range sc.Initial {
		if strings.HasPrefix(it, "!") {
			r.q.UrgentPush(&RPC{from: peer.ID(it[1:])}, false)
		} else {
			r.q.Push(&RPC{from: peer.ID(it)}, false)
		}
	}
	s := vsync.New()
	r.sched = s
	for ti, ops := range sc.Threads {
		ti, ops := ti, ops
		s.Spawn(fmt.Sprintf("T%d", ti), func() {
			for k, o := range ops {
				rec := &vfQOp{thread: ti, k: k, op: o, callAt: len(r.hist), retAt: -1}
				r.ops = append(r.ops, rec)
				r.hist = append(r.hist, fmt.Sprintf("call T%d.%s", ti, o))
				rec.res = r.do(o)
				// (also judged here, not only in the state-key callback: a replay does not compute state keys)
				if r.q.queue.Len() > sc.Capacity {
					r.overCap = true
				}
				rec.retAt = len(r.hist)
				r.hist = append(r.hist, fmt.Sprintf("ret T%d.%s=%s", ti, o, rec.res))
			}
		})
	}
	s.Extra = func() string {
		if r.q.queue.Len() > sc.Capacity {
			r.overCap = true
		}
		return fmt.Sprintf("n=%s p=%s closed=%v c=%v%v H=%s", vfQTags(r.q.queue.normal), vfQTags(r.q.queue.priority), r.q.closed,
			r.ctx[0].Err() != nil, r.ctx[1].Err() != nil, strings.Join(r.hist, ";"))
	}
	return r
}

func (r *vfQRun) do(o string) (res string) {
	defer func() {
		if e := recover(); e != nil {
			if err, ok := e.(error); ok && (err == ErrQueuePushOnClosed) {
				res = "panic:push-on-closed"
				return
			}
			panic(e)
		}
	}()
	name, arg, _ := strings.Cut(o, ":")
	switch name {
	case "push":
		return vfQErrName(r.q.Push(&RPC{from: peer.ID(arg)}, true))
	case "nbpush":
		return vfQErrName(r.q.Push(&RPC{from: peer.ID(arg)}, false))
	case "upush":
		return vfQErrName(r.q.UrgentPush(&RPC{from: peer.ID(arg)}, true))
	case "nbupush":
		return vfQErrName(r.q.UrgentPush(&RPC{from: peer.ID(arg)}, false))
	case "pop1", "pop2":
		rpc, err := r.q.Pop(r.ctx[int(name[3]-'1')])
		if err != nil {
			return vfQErrName(err)
		}
		return "item:" + string(rpc.from)
	case "cancel1", "cancel2":
		vsync.YieldPoint(name)
		r.cancel[int(name[6]-'1')]()
		vsync.FireAfterFuncs()
		return "ok"
	case "close":
		r.q.Close()
		return "ok"
	case "len":
		// an observation: how many RPCs the queue holds right now (taken under the queue's own lock)
		r.q.queueMu.Lock()
		n := r.q.queue.Len()
		r.q.queueMu.Unlock()
		return fmt.Sprintf("len:%d", n)
	}
	panic("unknown op " + o)
}

// ---- sequential reference and brute-force linearisation

type vfQModel struct {
	normal, prio []string
	closed       bool
	cancelled    [2]bool
	cap          int
}

func (m vfQModel) clone() vfQModel {
	m.normal = append([]string{}, m.normal...)
	m.prio = append([]string{}, m.prio...)
	return m
}

// step applies op with the observed result; ok=false if the reference cannot
// produce that result in this state.
func (m *vfQModel) step(op, res string) bool {
	name, arg, _ := strings.Cut(op, ":")
	n := len(m.normal) + len(m.prio)
	switch name {
	case "push", "nbpush", "upush", "nbupush":
		if m.closed {
			return res == "panic:push-on-closed"
		}
		if n >= m.cap {
			if strings.HasPrefix(name, "nb") {
				return res == "full"
			}
			return false // a blocking push cannot take effect on a full queue
		}
		if res != "ok" {
			return false
		}
		if strings.HasSuffix(name, "upush") {
			m.prio = append(m.prio, arg)
		} else {
			m.normal = append(m.normal, arg)
		}
		return true
	case "pop1", "pop2":
		i := int(name[3] - '1')
		if m.closed {
			return res == "closed"
		}
		if n > 0 {
			var head string
			if len(m.prio) > 0 {
				head, m.prio = m.prio[0], m.prio[1:]
			} else {
				head, m.normal = m.normal[0], m.normal[1:]
			}
			return res == "item:"+head
		}
		if m.cancelled[i] {
			return res == "cancelled"
		}
		return false
	case "cancel1", "cancel2":
		m.cancelled[int(name[6]-'1')] = true
		return res == "ok"
	case "close":
		m.closed = true
		return res == "ok"
	case "len":
		return res == fmt.Sprintf("len:%d", n)
	}
	return false
}

func vfQLinearizable(ops []*vfQOp, init vfQModel) bool {
	var done []*vfQOp
	for _, o := range ops {
		if o.retAt >= 0 {
			done = append(done, o)
		}
	}
	used := make([]bool, len(done))
	var rec func(m vfQModel, left int) bool
	rec = func(m vfQModel, left int) bool {
		if left == 0 {
			return true
		}
		for i, o := range done {
			if used[i] {
				continue
			}
			// o may go next only if no other unused op returned before o was called
			ok := true
			for j, p := range done {
				if j != i && !used[j] && p.retAt < o.callAt {
					ok = false
					break
				}
			}
			if !ok {
				continue
			}
			mm := m.clone()
			if !mm.step(o.op, o.res) {
				continue
			}
			used[i] = true
			if rec(mm, left-1) {
				return true
			}
			used[i] = false
		}
		return false
	}
	return rec(init, len(done))
}

func (r *vfQRun) initModel() vfQModel {
	m := vfQModel{cap: r.sc.Capacity}
	for _, it := range r.sc.Initial {
		if strings.HasPrefix(it, "!") {
			m.prio = append(m.prio, it[1:])
		} else {
			m.normal = append(m.normal, it)
		}
	}
	return m
}

type vfQSchedCase struct {
	Scenario *vfQScenario `json:"scenario"`
	Variant  string       `json:"variant"`
	Schedule []int        `json:"schedule"`
	Trace    []string     `json:"trace,omitempty"`
}

// judge evaluates one finished execution; returns a canonical outcome string.
func (r *vfQRun) judge(vr *vfRun, choices []int, report bool) string {
	s := r.sched
	c := vfQSchedCase{Scenario: r.sc, Variant: "sched", Schedule: choices, Trace: s.Trace}
	bad := func(fp, format string, a ...any) {
		if report {
			vr.violation(fp, fmt.Sprintf("[%s] ", r.sc.Name)+fmt.Sprintf(format, a...)+" | history: "+strings.Join(r.hist, "; "), c)
		}
	}
	for name, p := range s.Panics() {
		bad("c15sched:panic", "thread %s panicked: %v", name, p)
	}
	if s.Overrun {
		bad("c15sched:livelock", "execution exceeded %d steps", s.MaxSteps)
	}
	if r.overCap {
		bad("c15sched:over-capacity", "queue exceeded its capacity %d", r.sc.Capacity)
	}
	if !vfQLinearizable(r.ops, r.initModel()) {
		bad("c15sched:not-linearizable", "history does not linearise to the two-class bounded FIFO reference")
	}
	// blocked calls at the end: legitimate only if the reference also blocks there
	if s.Deadlock {
		n := r.q.queue.Len()
		for _, o := range r.ops {
			if o.retAt >= 0 {
				continue
			}
			name, _, _ := strings.Cut(o.op, ":")
			switch {
			case strings.HasPrefix(name, "pop"):
				i := int(name[3] - '1')
				switch {
				case r.q.closed:
					bad("c15sched:pop-stuck-closed", "T%d.%s is blocked forever although the queue is closed", o.thread, o.op)
				case r.ctx[i].Err() != nil:
					vr.count("cancel_landed_before_wait_registered", 1)
					bad("c15sched:pop-stuck-cancelled", "T%d.%s is blocked forever although its context is cancelled (lost wake-up)", o.thread, o.op)
				case n > 0:
					bad("c15sched:pop-stuck-data", "T%d.%s is blocked forever although the queue holds %d item(s)", o.thread, o.op, n)
				}
			case strings.HasSuffix(name, "push"):
				switch {
				case r.q.closed:
					bad("c15sched:push-stuck-closed", "T%d.%s is blocked forever although the queue is closed", o.thread, o.op)
				case n < r.sc.Capacity:
					bad("c15sched:push-stuck-space", "T%d.%s is blocked forever although the queue has space (%d/%d)", o.thread, o.op, n, r.sc.Capacity)
				}
			default:
				bad("c15sched:stuck", "T%d.%s never returned", o.thread, o.op)
			}
		}
	}
	// anti-vacuity: did a cancel land between a Pop's lock acquisition and its Wait?
	inPop := map[string]bool{}
	for _, st := range s.Trace {
		th, what, _ := strings.Cut(st, ".")
		switch {
		case strings.HasPrefix(what, "Lock"):
			inPop[th] = true
		case strings.HasPrefix(what, "Wait"), strings.HasPrefix(what, "Unlock"):
			inPop[th] = false
		case strings.HasPrefix(what, "point:cancel"):
			for _, v := range inPop {
				if v {
					if report {
						vr.count("cancel_landed_inside_a_critical_section_before_wait", 1)
					}
					break
				}
			}
		}
	}
	var res []string
	for _, o := range r.ops {
		x := o.res
		if o.retAt < 0 {
			x = "<blocked>"
		}
		res = append(res, fmt.Sprintf("T%d.%s=%s", o.thread, o.op, x))
	}
	sort.Strings(res)
	return strings.Join(res, " ") + fmt.Sprintf(" final=[%s|%s] closed=%v", vfQTags(r.q.queue.priority), vfQTags(r.q.queue.normal), r.q.closed)
}

type vfSchedRunI interface {
	Sched() *vsync.Sched
	Judge(vr *vfRun, choices []int, report bool) string
	Case(choices []int) any
}

func (r *vfQRun) Sched() *vsync.Sched { return r.sched }
func (r *vfQRun) Judge(vr *vfRun, choices []int, report bool) string {
	return r.judge(vr, choices, report)
}
func (r *vfQRun) Case(choices []int) any {
	return vfQSchedCase{Scenario: r.sc, Variant: "sched", Schedule: choices, Trace: r.sched.Trace}
}

// vfSchedExplore: iterative preemption bounding, then unbounded with state caching.
func vfSchedExplore(vr *vfRun, name string, build func() vfSchedRunI, maxBound int, unbounded bool) {
	runs := int64(0)
	var seen map[string]struct{}
	var exploreB func(prefix []int, bound int)
	exploreB = func(prefix []int, bound int) {
		if vr.outOfTime() {
			return
		}
		r := build()
		sc := r.Sched()
		if seen != nil {
			sc.Visit = func(k string) bool {
				if _, ok := seen[k]; ok {
					return false
				}
				seen[k] = struct{}{}
				vr.res.States++
				return true
			}
		}
		vr.mark(r.Case(prefix))
		sc.Run(prefix)
		vr.unmark()
		if c, ok := r.(interface{ Cleanup() }); ok {
			c.Cleanup()
		}
		runs++
		vr.res.Executions++
		vr.res.Transitions += int64(len(sc.Points))
		if !sc.Pruned {
			out := r.Judge(vr, sc.Choices, true)
			vr.outcome(name + ": " + out)
			if len(vr.res.Samples) < 3 && len(sc.Choices) > 6 {
				vr.sample(r.Case(sc.Choices))
			}
		}
		pts := sc.Points
		choices := sc.Choices
		pre := 0
		cost := make([]int, len(pts))
		for i, p := range pts {
			cost[i] = pre
			if p.Running && p.Chosen != 0 {
				pre++
			}
		}
		for i := len(prefix); i < len(pts); i++ {
			p := pts[i]
			for alt := 1; alt < len(p.Enabled); alt++ {
				c := cost[i]
				if p.Running {
					c++
				}
				if bound >= 0 && c > bound {
					continue
				}
				np := append(append(make([]int, 0, i+1), choices[:i]...), alt)
				exploreB(np, bound)
			}
		}
	}
	for b := 0; b <= maxBound; b++ {
		before := runs
		exploreB(nil, b)
		vr.res.Bounds[fmt.Sprintf("%s:preemption_bound_%d_runs", name, b)] = runs - before
		if vr.outOfTime() {
			return
		}
	}
	vr.res.Bounds[name+":preemption_bound_completed"] = maxBound
	if unbounded {
		seen = map[string]struct{}{}
		before := runs
		exploreB(nil, -1)
		if !vr.outOfTime() {
			vr.res.Bounds[name+":unbounded_with_state_cache_runs"] = runs - before
			vr.res.Bounds[name+":unbounded_states"] = len(seen)
		}
	}
}

func vfQExplore(vr *vfRun, sc *vfQScenario, maxBound int, unbounded bool) {
	vfSchedExplore(vr, sc.Name, func() vfSchedRunI { return vfQBuild(sc) }, maxBound, unbounded)
}

func vfC15SchedScenarios(thorough bool) []*vfQScenario {
	mk := func(name string, capacity int, initial []string, threads ...[]string) *vfQScenario {
		return &vfQScenario{Part: "sched", Variant: "sched", Name: name, Capacity: capacity, Initial: initial, Threads: threads}
	}
	l := func(s ...string) []string { return s }
	out := []*vfQScenario{
		mk("pop-vs-cancel", 1, nil, l("pop1"), l("cancel1")),
		mk("pop-vs-cancel-vs-push", 1, nil, l("pop1"), l("cancel1"), l("nbpush:a")),
		mk("pop-vs-close", 1, nil, l("pop1"), l("close")),
		mk("two-pops-one-push-cancel", 1, nil, l("pop1"), l("pop2"), l("nbpush:a", "cancel1")),
		mk("push-full-vs-pop", 1, l("a"), l("push:b"), l("pop1")),
		mk("push-full-vs-close", 1, l("a"), l("push:b"), l("close")),
		mk("two-pushers-one-slot", 1, l("a"), l("push:b"), l("push:c"), l("pop1", "pop1")),
		// a parked pusher, then room, then Close, then a look at the queue: nothing may slip into a closed queue
		mk("push-full-pop-close-len", 1, l("a"), l("push:b"), l("pop1", "close", "len")),
		mk("push-full-pop-vs-close-len", 1, l("a"), l("push:b"), l("pop1"), l("close", "len", "len")),
		mk("urgent-vs-normal", 2, nil, l("nbpush:a", "nbpush:b"), l("nbupush:c"), l("pop1", "pop1")),
		mk("pop-cancel-close", 1, nil, l("pop1"), l("cancel1"), l("close")),
		mk("full-nb-vs-pop", 1, l("a"), l("nbpush:b", "nbpush:c"), l("pop1")),
		mk("producer-consumer", 1, nil, l("push:a", "push:b"), l("pop1", "pop1")),
		mk("pop2-cancel-both", 2, nil, l("pop1"), l("pop2"), l("cancel1", "cancel2")),
		// capacity 2 (every pop of a 1-slot queue sees it full): two parked pushers, pops back to back
		mk("two-blocked-pushers-cap2", 2, l("a", "b"), l("push:c"), l("push:d"), l("pop1", "pop1")),
		mk("blocked-pushers-urgent-cap2", 2, l("a", "b"), l("upush:c"), l("push:d"), l("pop1"), l("pop2")),
		mk("two-blocked-poppers-cap2", 2, nil, l("pop1"), l("pop2"), l("nbpush:a", "nbpush:b")),
		// two parked poppers, one push (which wakes one of them), Close right behind it: Close wakes whoever is parked
		mk("two-poppers-push-close", 2, nil, l("pop1"), l("pop2"), l("nbpush:a", "close")),
		mk("two-poppers-push-vs-close", 1, nil, l("pop1"), l("pop2"), l("nbpush:a"), l("close")),
	}
	if thorough {
		out = append(out,
			mk("4thr-push-pop-cancel-close", 1, nil, l("push:a", "push:b"), l("pop1"), l("cancel1"), l("close")),
			mk("pipeline-cap2", 2, nil, l("push:a", "upush:b", "push:c"), l("pop1", "pop1"), l("pop2", "cancel2")),
			mk("pushers-close", 1, l("a"), l("push:b"), l("upush:c"), l("pop1", "close")),
		)
	}
	return out
}

func vfC15SchedRun(r *vfRun) {
	scs := vfC15SchedScenarios(r.thorough)
	maxB := 2
	if r.thorough {
		maxB = 3
	}
	for _, sc := range scs {
		if _, ok := r.nextCase(); !ok {
			continue
		}
		vfQExplore(r, sc, maxB, true)
	}
	_ = time.Second
}

func vfC15SchedReplay(r *vfRun, raw json.RawMessage) {
	var c vfQSchedCase
	if err := json.Unmarshal(raw, &c); err != nil || c.Scenario == nil {
		r.harnessError("bad sched case: %v", err)
		return
	}
	run := vfQBuild(c.Scenario)
	run.sched.Run(c.Schedule)
	r.res.Executions++
	out := run.judge(r, run.sched.Choices, true)
	fmt.Println(strings.Join(run.sched.Trace, "\n"))
	fmt.Println(strings.Join(run.hist, "\n"))
	fmt.Println(out)
}
