package pubsub

// C13: all state attributable to a peer is reclaimed after it disconnects.
//
// The alphabet is the life of one remote peer p (connection, both stream
// directions opening / closing / resetting in any order, blocked and failing
// stream establishment, every RPC kind, a message parked in validation that
// outlives the peer, blacklisting).  At every explored state the leaf event
// "retire" closes everything that belongs to p, lets the longest retention
// period pass with heartbeats running, and then scans everything reachable
// from the PubSub object graph (reflection, unexported fields included) and the
// connection manager for the peer's ID -- as map key, map value, slice element
// or substring of a key.  The failing field path is the fingerprint.

import (
	"bytes"
	"encoding/json"
	"fmt"
	"reflect"
	"regexp"
	"sort"
	"strings"
	"testing/synctest"
	"time"

	"github.com/libp2p/go-libp2p/core/peer"
)

type vfC13Inst struct {
	*vfGWInst
	target string
}

var vfC13Skip = map[string]bool{
	"PubSub.host": true, "PubSub.ctx": true, "PubSub.logger": true, "PubSub.rpcLogger": true,
	"GossipSubRouter.logger": true, "peerScore.host": true, "peerScore.logger": true, "peerGater.host": true, "peerGater.logger": true,
	"tagTracer.cmgr": true, "tagTracer.logger": true, "validatorImpl.logger": true, "GossipSubRouter.cab": true, "Subscription.ctx": true,
}

var vfIndexRe = regexp.MustCompile(`\[[^\]]*\]`)

// vfScanForPeer returns the field paths under which pid is still referenced.
func vfScanForPeer(n *vfNode, pid peer.ID, allow func(path string) bool) []string {
	idb := []byte(pid)
	found := map[string]bool{}
	hit := func(path string) {
		p := vfIndexRe.ReplaceAllString(path, "[]")
		if allow != nil && allow(p) {
			return
		}
		found[p] = true
	}
	n.eval(func() {
		vfScan(map[string]any{"PubSub": n.ps}, func(k string) bool { return vfC13Skip[k] }, func(path string, v reflect.Value) {
			switch v.Kind() {
			case reflect.String:
				if strings.Contains(v.String(), string(pid)) {
					hit(path)
				}
			case reflect.Slice:
				if v.Type().Elem().Kind() == reflect.Uint8 && v.Len() >= len(idb) {
					b := make([]byte, v.Len())
					for i := range b {
						b[i] = byte(v.Index(i).Uint())
					}
					if bytes.Contains(b, idb) {
						hit(path)
					}
				}
			case reflect.Map:
				for _, k := range v.MapKeys() {
					if k.Kind() == reflect.String && strings.Contains(k.String(), string(pid)) {
						hit(path + "(key)")
					}
				}
			}
		})
	})
	for _, k := range n.h.cm.protections() {
		if strings.HasPrefix(k, string(pid)+"|") {
			found["ConnManager.protected("+k[len(pid)+1:]+")"] = true
		}
	}
	n.h.cm.mu.Lock()
	for k := range n.h.cm.tags {
		if strings.HasPrefix(k, string(pid)+"|") {
			found["ConnManager.tag("+k[len(pid)+1:]+")"] = true
		}
	}
	n.h.cm.mu.Unlock()
	var out []string
	for k := range found {
		out = append(out, k)
	}
	sort.Strings(out)
	return out
}

func (in *vfC13Inst) Apply(ev string, judge bool) string {
	if ev != "retire" {
		return in.vfGWInst.Apply(ev, judge)
	}
	g := in.g
	x := in.target
	in.lastEv = ev
	// a stream goroutine the explorer is holding at a yield point gets to run: descheduling ends, it is not for ever
	g.ymu.Lock()
	g.yArmed = map[string]bool{}
	g.ymu.Unlock()
	_, parkedY := g.yieldState()
	for _, k := range parkedY {
		g.releaseYield(k)
	}
	synctest.Wait()
	// close everything that belongs to the peer
	if g.conn[x] {
		g.apply("disc:" + x)
	}
	if g.held[x] {
		g.apply("failstream:" + x)
	}
	// messages of the peer still parked in validation complete now
	for _, p := range g.pendingVals() {
		v, m, _ := strings.Cut(p, "|")
		g.apply("vrel:" + v + ":" + m + ":A")
	}
	// the longest retention: dead-peer backoff TTL (10 min) + its cleaner (1 min); everything else is shorter
	// (score retention 10s, prune backoff 4s + slack + 15 ticks, seen TTL 5s + 1 min sweep, delivery records
	// 5s + 1 min gc, promise follow-up 3s, gater retention 5s + decay tick)
	vfAdvance(12*time.Minute + 30*time.Second)
	blacklisted := in.last.Blacklst[x] || func() bool { s := g.snap(); return s.Blacklst[x] }()
	left := vfScanForPeer(g.n, g.pid(x), func(path string) bool {
		if strings.Contains(path, ".blacklist") && blacklisted {
			return true // the configured blacklist legitimately remembers the peer
		}
		return false
	})
	if judge {
		in.count("retention_suffixes_run")
		for _, p := range left {
			in.bad("c13:leak:"+p, "after every stream and connection of %s (%s) closed and all retention periods elapsed, the node still references the peer at %s", x, g.pcfg[x].Proto, p)
		}
	}
	dbg := ""
	if len(left) > 0 && g.n.gs != nil && g.n.gs.score != nil {
		g.n.eval(func() {
			if st, ok := g.n.gs.score.peerStats[g.pid(x)]; ok {
				dbg = fmt.Sprintf(" score{connected=%v expire=%v now=%v score=%v}", st.connected, st.expire, time.Now(), g.n.gs.score.score(g.pid(x)))
			}
		})
	}
	return "left=" + strings.Join(left, ",") + dbg
}

func vfC13Scenarios(thorough bool) []*vfGWScenario {
	var out []*vfGWScenario
	d := 5
	if thorough {
		d = 6
	}
	msgs := map[string]vfMsgSpec{
		"m1": {Topic: "t", Author: "p", Seq: 1, Size: 32}, "m2": {Topic: "t", Author: "x", Seq: 2, Size: 32}, "m3": {Topic: "t", Author: "x", Seq: 3, Size: 32},
	}
	for _, proto := range []string{"v11", "v13", "v12", "v10", "fs", "acme"} {
		peers := []vfPeerCfg{{Name: "p", Proto: proto, IP: "10.0.0.1"}, {Name: "q", Proto: "v12", IP: "10.0.0.2"}}
		prefix := []string{"conn:q", "sub:q:t", "join:t", "pub:q:m3"}
		alphabet := []string{"conn:p", "disc:p", "hold:p", "release:p", "failstream:p", "inclose:p", "inreset:p", "inopen:p", "outreset:p",
			"sub:p:t", "graft:p:t", "prune:p:t", "ihave:p:t:m2", "iwant:p:m3", "idw:p:m2", "pub:p:m1", "vrel:V:m1:A", "vrel:V:m1:R", "hb"}
		if thorough {
			alphabet = append(alphabet, "bl:p", "pub:p:m2", "outclose:p", "leave:t", "adv:1100")
		}
		out = append(out, &vfGWScenario{Name: "life-" + proto, Cfg: vfGWCfg{Router: "gossip", Peers: peers, Topics: []string{"t"}, Params: "d2", Scoring: true, ScoreTopics: true,
			Gater: true, TestExt: true, DecayMs: 1030, ScoreSeenS: 5, SeenTTL: 5, Prefix: prefix,
			Validators: []vfValCfg{{Name: "V", Topic: "t", Gated: true, GateOnly: []string{"m1"}}}},
			Alphabet: alphabet, Msgs: msgs, Depth: d, Leaf: []string{"retire"}})
	}
	// a peer whose outbound stream has already died (and been re-opened) three times: the next deaths use up the
	// re-open budget (backoff.go MaxBackoffAttempts), after which the node gives the peer up while it is still
	// connected and in the mesh
	{
		peers := []vfPeerCfg{{Name: "p", Proto: "v12", IP: "10.0.0.1"}, {Name: "q", Proto: "v12", IP: "10.0.0.2"}}
		out = append(out, &vfGWScenario{Name: "respawn-budget", Cfg: vfGWCfg{Router: "gossip", Peers: peers, Topics: []string{"t"}, Params: "d2", Scoring: true, ScoreTopics: true,
			Gater: true, TestExt: true, DecayMs: 1030, ScoreSeenS: 5, SeenTTL: 5,
			Prefix:     []string{"conn:q", "sub:q:t", "join:t", "conn:p", "sub:p:t", "graft:p:t", "outreset:p", "adv:1100", "outreset:p", "adv:1100", "outreset:p", "adv:1100"},
			Validators: []vfValCfg{{Name: "V", Topic: "t", Gated: true, GateOnly: []string{"m1"}}}},
			Alphabet: []string{"outreset:p", "adv:1100", "graft:p:t", "prune:p:t", "inclose:p", "inopen:p", "sub:p:t", "disc:p", "conn:p", "hb"}, Msgs: msgs, Depth: d, Leaf: []string{"retire"}})
	}
	// a mesh member the node has no outbound stream to (still being opened, or failed for good) when the node leaves
	// the topic: whatever was installed for it has to go although there is nobody to send the PRUNE to
	{
		peers := []vfPeerCfg{{Name: "p", Proto: "v12", IP: "10.0.0.1"}, {Name: "q", Proto: "v12", IP: "10.0.0.2"}}
		out = append(out, &vfGWScenario{Name: "leave-queueless", Cfg: vfGWCfg{Router: "gossip", Peers: peers, Topics: []string{"t"}, Params: "d2", Scoring: true, ScoreTopics: true,
			Gater: true, TestExt: true, DecayMs: 1030, ScoreSeenS: 5, SeenTTL: 5, Prefix: []string{"conn:q", "sub:q:t", "join:t"}},
			Alphabet: []string{"hold:p", "failstream:p", "conn:p", "release:p", "sub:p:t", "graft:p:t", "leave:t", "join:t", "inclose:p", "disc:p", "hb"}, Msgs: msgs, Depth: d, Leaf: []string{"retire"}})
	}
	// the goroutine that has just opened the outbound stream is descheduled before it tells the event loop (named yield
	// point of the verif hooks); the peer goes away in the meantime, and the loop learns of the new stream afterwards
	{
		peers := []vfPeerCfg{{Name: "p", Proto: "v12", IP: "10.0.0.1"}, {Name: "q", Proto: "v12", IP: "10.0.0.2"}}
		out = append(out, &vfGWScenario{Name: "late-stream-notice", Cfg: vfGWCfg{Router: "gossip", Peers: peers, Topics: []string{"t"}, Params: "d2", Scoring: true, ScoreTopics: true,
			Gater: true, TestExt: true, DecayMs: 1030, ScoreSeenS: 5, SeenTTL: 5, Prefix: []string{"conn:q", "sub:q:t", "join:t"}},
			Alphabet: []string{"holdy:outbound-opened:p", "rely:outbound-opened:p", "conn:p", "disc:p", "inclose:p", "sub:p:t", "graft:p:t", "hb"}, Msgs: msgs, Depth: d, Leaf: []string{"retire"}})
	}
	// two peers behind one IP address (the gater and the scorer keep per-IP state shared between them)
	for _, proto := range []string{"v11"} {
		peers := []vfPeerCfg{{Name: "p", Proto: proto, IP: "10.0.0.1"}, {Name: "q", Proto: "v12", IP: "10.0.0.1"}}
		out = append(out, &vfGWScenario{Name: "shared-ip-" + proto, Cfg: vfGWCfg{Router: "gossip", Peers: peers, Topics: []string{"t"}, Params: "d2", Scoring: true, ScoreTopics: true,
			Gater: true, TestExt: true, DecayMs: 1030, ScoreSeenS: 5, SeenTTL: 5, Prefix: []string{"conn:q", "sub:q:t", "join:t", "pub:q:m3"},
			Validators: []vfValCfg{{Name: "V", Topic: "t", Gated: true, GateOnly: []string{"m1"}}}},
			Alphabet: []string{"conn:p", "disc:p", "inclose:p", "inopen:p", "outreset:p", "sub:p:t", "graft:p:t", "pub:p:m1", "vrel:V:m1:A", "disc:q", "conn:q", "hb", "ip:p:10.0.0.7", "adv:61000"}, Msgs: msgs, Depth: d, Leaf: []string{"retire"}})
	}
	return out
}

func vfC13Mk(x *vfExec, sc *vfGWScenario) vfInstance {
	// validator V only parks messages of p (m1); everything else is accepted at once
	sc2 := *sc
	base := newVfGWInst(x, &sc2, nil)
	return &vfC13Inst{vfGWInst: base, target: "p"}
}

func init() {
	vfRegister("C13", &vfCheck{
		run:    func(r *vfRun) { vfRunGWScenarios(r, vfC13Scenarios(r.thorough), vfC13Mk) },
		replay: func(r *vfRun, raw json.RawMessage) { vfReplayGWScenario(r, raw, vfC13Mk) },
	})
}

var _ = fmt.Sprint
