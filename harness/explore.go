package pubsub

// Explicit-state search by replay over real objects.
//
// Live Go objects cannot be cloned, so a state is identified with a shortest
// event history that reaches it; a successor is produced by building a fresh
// instance, replaying the history and applying one more event through the real
// entry points.  States are deduplicated on a canonical dump of the real object
// graph (plus the harness' own state).  Oracles run after every new event.

import (
	"encoding/json"
	"fmt"
	"os"
	"strconv"
	"strings"
)

// vfInstance is one live system under test plus its oracle.
type vfInstance interface {
	// Enabled lists the events that may be applied in the current state.
	Enabled() []string
	// Apply executes one event through the real code and returns the canonical
	// observation of that step.  When judge is false (prefix replay) oracles
	// must not report.
	Apply(ev string, judge bool) string
	// Canon returns the canonical state dump used for deduplication.
	Canon() string
	// Finish runs end-of-history oracles (judge) and releases the instance.
	Finish(judge bool) string
}

type vfExploreCfg struct {
	Scenario  any    // JSON-able description, stored in replay files
	Name      string // short scenario label for counters
	MaxDepth  int
	Bubble    bool // run every execution inside a synctest bubble
	NoDedupe  bool
	New       func(x *vfExec) vfInstance
	MaxStates int // safety cap (0 = none); hitting it marks the run non-exhaustive
	// Leaf, when set, is applied at every state in addition to Enabled events
	// (e.g. "retention suffix"); leaf successors are never expanded.
	Leaf []string
}

// vfExec is the context of one execution (one history).
type vfExec struct {
	r       *vfRun
	cfg     *vfExploreCfg
	history []string
	judge   bool
	vio     []string
}

type vfCase struct {
	Scenario any      `json:"scenario"`
	Name     string   `json:"name"`
	Events   []string `json:"events"`
}

func (x *vfExec) violation(fp, desc string) {
	if !x.judge {
		return
	}
	x.vio = append(x.vio, fp)
	x.r.violation(fp, desc, vfCase{Scenario: x.cfg.Scenario, Name: x.cfg.Name, Events: append([]string{}, x.history...)})
}

type vfBfsNode struct {
	hist    []string
	enabled []string
}

// vfRunHistory executes hist (judging only the last event unless judgeAll) and
// returns (canon, observation log, enabled events, panic text).
var vfLastDevs []string // single-deviation variants of the last event of the most recent vfRunHistory

func vfRunHistory(r *vfRun, cfg *vfExploreCfg, hist []string, judgeAll bool, leaf bool) (canon string, obs string, enabled []string, panicked string) {
	vfLastDevs = nil
	body := func() {
		x := &vfExec{r: r, cfg: cfg}
		inst := cfg.New(x)
		var sb strings.Builder
		for i, ev := range hist {
			x.history = hist[:i+1]
			x.judge = judgeAll || i == len(hist)-1
			o := inst.Apply(ev, x.judge)
			sb.WriteString(ev)
			sb.WriteString(" => ")
			sb.WriteString(o)
			sb.WriteString("\n")
		}
		x.history = hist
		if !leaf {
			canon = inst.Canon()
			enabled = inst.Enabled()
			if d, ok := inst.(interface{ LastDeviations() []string }); ok && len(hist) > 0 {
				vfLastDevs = d.LastDeviations()
			}
		}
		x.judge = true
		sb.WriteString("finish => ")
		sb.WriteString(inst.Finish(true))
		obs = sb.String()
	}
	if cfg.Bubble {
		panicked = vfBubble(r.t, body)
	} else {
		func() {
			defer func() {
				if e := recover(); e != nil {
					panicked = fmt.Sprint(e)
				}
			}()
			body()
		}()
	}
	return
}

// vfSelfCheckEvery: besides the first five histories of a scenario, every n-th execution is run twice and the
// two runs must agree on canonical state and observation (un-owned nondeterminism is a harness error).
var vfSelfCheckEvery = func() int64 {
	if s := os.Getenv("VF_SELFCHECK_EVERY"); s != "" {
		n, _ := strconv.ParseInt(s, 10, 64)
		return n
	}
	return 97
}()

// vfExplore runs the breadth-first search for one scenario.
func vfExplore(r *vfRun, cfg *vfExploreCfg) {
	seen := map[string]struct{}{}
	nv0 := r.totalViolations()
	defer r.unmark()
	r.mark(vfCase{Scenario: cfg.Scenario, Name: cfg.Name}) // (a crash of the process while the start state is built or re-built is attributed too)
	canon0, obs0, en0, p0 := vfRunHistory(r, cfg, nil, true, false)
	r.res.Executions++
	if p0 != "" && strings.Contains(p0, "blocked goroutines remain") && r.totalViolations() > nv0 {
		return // the execution already reported why goroutines are stuck
	}
	if p0 != "" {
		r.violation("panic:"+vfPanicFingerprint(p0), "panic building initial state: "+vfFirstLine(p0), vfCase{Scenario: cfg.Scenario, Name: cfg.Name})
		return
	}
	// determinism self-test on the initial state
	canon0b, obs0b, _, _ := vfRunHistory(r, cfg, nil, false, false)
	r.unmark()
	if canon0 != canon0b || obs0 != obs0b {
		r.harnessError("nondeterministic initial state in scenario %s:\n%s", cfg.Name, vfDiff(canon0+obs0, canon0b+obs0b))
		return
	}
	seen[vfHash(canon0)] = struct{}{}
	r.res.States++
	r.outcome(obs0)
	frontier := []vfBfsNode{{hist: nil, enabled: en0}}
	selfTests := 0
	depthDone := 0
	for depth := 1; depth <= cfg.MaxDepth && len(frontier) > 0; depth++ {
		var next []vfBfsNode
		for _, n := range frontier {
			evs := n.enabled
			for pass := 0; pass < 2; pass++ {
				leaf := pass == 1
				if leaf {
					evs = cfg.Leaf
				}
				evs = append([]string{}, evs...)
				for ei := 0; ei < len(evs); ei++ {
					ev := evs[ei]
					if r.outOfTime() {
						r.res.Bounds["depth_completed:"+cfg.Name] = depthDone
						return
					}
					h := append(append(make([]string, 0, len(n.hist)+1), n.hist...), ev)
					c := vfCase{Scenario: cfg.Scenario, Name: cfg.Name, Events: h}
					r.mark(c)
					nvBefore := r.totalViolations()
					canon, obs, en, p := vfRunHistory(r, cfg, h, false, leaf)
					r.unmark()
					if p != "" && strings.Contains(p, "blocked goroutines remain") && r.totalViolations() > nvBefore {
						// the execution already reported why something is stuck; the bubble's own
						// deadlock report would only repeat it under a generic fingerprint
						p = ""
						r.count("executions_ending_with_stuck_goroutines", 1)
						r.res.Executions++
						r.res.Transitions++
						continue
					}
					r.res.Executions++
					r.res.Transitions++
					if !leaf && len(vfLastDevs) > 0 {
						evs = append(evs, vfLastDevs...)
						r.count("choice_deviation_variants", int64(len(vfLastDevs)))
					}
					if p != "" {
						r.violation("panic:"+vfPanicFingerprint(p), "panic: "+vfFirstLine(p), c)
						continue
					}
					r.outcome(obs)
					if len(r.res.Samples) < 3 && depth >= 2 {
						r.sample(c)
					}
					if (selfTests < 5 && depth >= 2) || (vfSelfCheckEvery > 0 && r.res.Executions%vfSelfCheckEvery == 0) {
						selfTests++
						r.count("determinism_selfchecks", 1)
						r.mark(c) // the second run can crash the process where the first did not (runtime select order)
						canonB, obsB, _, _ := vfRunHistory(r, cfg, h, false, leaf)
						r.unmark()
						if canonB != canon || obsB != obs {
							// One more run decides between a harness that does not own some choice (an error: every run
							// differs, or this happens again and again) and the Go scheduler preempting a goroutine in the
							// middle of a step: with one P a handler of the event loop normally runs to its next blocking
							// point, but on a loaded machine the runtime takes the processor away after 10 ms of wall
							// clock, and with a queue of one it then matters whether the writer ran between two pushes. The
							// schedule inside a step is not something the search enumerates (assumption in the evidence).
							r.mark(c)
							canonC, obsC, _, _ := vfRunHistory(r, cfg, h, false, leaf)
							r.unmark()
							agree := (canonC == canon && obsC == obs) || (canonC == canonB && obsC == obsB)
							r.count("selfcheck_mismatches_settled_by_a_third_run", 1)
							if !agree || r.res.Counters["selfcheck_mismatches_settled_by_a_third_run"] > 3 {
								r.harnessError("nondeterministic replay in scenario %s history %v:\n%s", cfg.Name, h, vfDiff(canon+"\n"+obs, canonB+"\n"+obsB))
								return
							}
							r.note("self-check: one of three runs of %s %v differed (goroutine preemption inside a step); first differing lines:\n%s", cfg.Name, h, vfFirstLines(vfDiff(canon+"\n"+obs, canonB+"\n"+obsB), 4))
						}
					}
					if leaf {
						continue
					}
					hc := vfHash(canon)
					if !cfg.NoDedupe {
						if _, ok := seen[hc]; ok {
							continue
						}
						seen[hc] = struct{}{}
					}
					r.res.States++
					if cfg.MaxStates > 0 && len(seen) >= cfg.MaxStates {
						if r.res.Exhaustive {
							r.res.Exhaustive = false
							r.note("state cap %d reached in scenario %s at depth %d", cfg.MaxStates, cfg.Name, depth)
						}
						continue
					}
					next = append(next, vfBfsNode{hist: h, enabled: en})
				}
			}
		}
		frontier = next
		depthDone = depth
	}
	// leaf events are applied at EVERY discovered state, including those found at the last depth
	if len(cfg.Leaf) > 0 {
		for _, n := range frontier {
			for _, ev := range cfg.Leaf {
				if r.outOfTime() {
					r.res.Bounds["depth_completed:"+cfg.Name] = depthDone
					return
				}
				h := append(append(make([]string, 0, len(n.hist)+1), n.hist...), ev)
				c := vfCase{Scenario: cfg.Scenario, Name: cfg.Name, Events: h}
				r.mark(c)
				nvBefore := r.totalViolations()
				_, obs, _, p := vfRunHistory(r, cfg, h, false, true)
				r.unmark()
				r.res.Executions++
				r.res.Transitions++
				if p != "" && strings.Contains(p, "blocked goroutines remain") && r.totalViolations() > nvBefore {
					r.count("executions_ending_with_stuck_goroutines", 1)
					continue
				}
				if p != "" {
					r.violation("panic:"+vfPanicFingerprint(p), "panic: "+vfFirstLine(p), c)
					continue
				}
				r.outcome(obs)
			}
		}
	}
	r.res.Bounds["depth_completed:"+cfg.Name] = depthDone
	if len(frontier) == 0 {
		r.res.Bounds["closed:"+cfg.Name] = true // state space closed below the depth bound
	}
}

// vfReplayCase re-runs one recorded history, judging every event.
func vfReplayCase(r *vfRun, cfg *vfExploreCfg, raw json.RawMessage) {
	var c struct {
		Events []string `json:"events"`
	}
	if err := json.Unmarshal(raw, &c); err != nil {
		r.harnessError("bad case: %v", err)
		return
	}
	nvBefore := r.totalViolations()
	_, obs, _, p := vfRunHistory(r, cfg, c.Events, true, false)
	r.res.Executions++
	if p != "" && strings.Contains(p, "blocked goroutines remain") && r.totalViolations() > nvBefore {
		p = ""
	}
	if p != "" {
		r.violation("panic:"+vfPanicFingerprint(p), "panic: "+vfFirstLine(p), vfCase{Scenario: cfg.Scenario, Name: cfg.Name, Events: c.Events})
	}
	fmt.Println(obs)
}

func vfFirstLines(s string, n int) string {
	l := strings.Split(s, "\n")
	if len(l) > n {
		l = l[:n]
	}
	return strings.Join(l, "\n")
}

func vfFirstLine(s string) string {
	if i := strings.IndexByte(s, '\n'); i >= 0 {
		s = s[:i]
	}
	if len(s) > 300 {
		s = s[:300]
	}
	return s
}

// vfPanicFingerprint reduces a panic text to something stable across runs.
func vfPanicFingerprint(p string) string {
	s := vfFirstLine(p)
	// strip goroutine numbers and addresses
	var sb strings.Builder
	for _, f := range strings.Fields(s) {
		if strings.HasPrefix(f, "0x") || strings.HasPrefix(f, "goroutine") {
			continue
		}
		sb.WriteString(f)
		sb.WriteByte('_')
	}
	out := sb.String()
	if len(out) > 120 {
		out = out[:120]
	}
	return out
}

func vfDiff(a, b string) string {
	la, lb := strings.Split(a, "\n"), strings.Split(b, "\n")
	var sb strings.Builder
	n := 0
	for i := 0; i < len(la) || i < len(lb); i++ {
		var x, y string
		if i < len(la) {
			x = la[i]
		}
		if i < len(lb) {
			y = lb[i]
		}
		if x != y {
			fmt.Fprintf(&sb, "- %s\n+ %s\n", x, y)
			n++
			if n > 12 {
				break
			}
		}
	}
	return sb.String()
}
