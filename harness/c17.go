package pubsub

// C17: gossip stays within its protocol bounds and message-cache windows.
// Part A: the real MessageCache against a list-of-lists reference for every
// short operation sequence.  Part B: a monitor on the wire log of one real
// gossipsub node (windows counted in heartbeats, per-peer per-heartbeat caps,
// IWANT service rules, IDONTWANT emission, promise penalties).

import (
	"encoding/json"
	"fmt"
	"sort"
	"strings"
	"time"

	pb "github.com/libp2p/go-libp2p-pubsub/pb"
	"github.com/libp2p/go-libp2p/core/peer"
)

// ---------------------------------------------------------------- part A: mcache

type vfMCInst struct {
	x       *vfExec
	mc      *MessageCache
	g, h    int
	ref     [][]string // window, newest first: message labels
	refTx   map[string]int
	msgs    map[string]*Message
	topicOf map[string]string
}

func vfMCNew(x *vfExec, gossip, history int) *vfMCInst {
	in := &vfMCInst{x: x, mc: NewMessageCache(gossip, history), g: gossip, h: history, ref: make([][]string, history), refTx: map[string]int{},
		msgs: map[string]*Message{}, topicOf: map[string]string{}}
	for i, l := range []string{"m1", "m2", "m3"} {
		topic := "t"
		if l == "m3" {
			topic = "u"
		}
		in.msgs[l] = &Message{Message: &pb.Message{From: []byte("author"), Seqno: []byte{byte(i + 1)}, Topic: &topic, Data: []byte(l)}}
		in.topicOf[l] = topic
	}
	return in
}

func (in *vfMCInst) Enabled() []string {
	evs := []string{"get:m1:p", "get:m1:q", "get:m2:p", "get:m3:p", "ids:t", "ids:u", "shift"}
	// the seen cache guarantees that a message is put once while it is remembered
	for _, l := range []string{"m1", "m2", "m3"} {
		if !in.has(l) {
			evs = append(evs, "put:"+l)
		}
	}
	return evs
}

func (in *vfMCInst) has(l string) bool {
	for _, s := range in.ref {
		for _, x := range s {
			if x == l {
				return true
			}
		}
	}
	return false
}

func (in *vfMCInst) Apply(ev string, judge bool) string {
	f := strings.Split(ev, ":")
	bad := func(fp, format string, a ...any) {
		in.x.violation("c17mc:"+fp, fmt.Sprintf("mcache(gossip=%d,history=%d) after %s: ", in.g, in.h, ev)+fmt.Sprintf(format, a...))
	}
	switch f[0] {
	case "put":
		in.mc.Put(in.msgs[f[1]])
		in.ref[0] = append(in.ref[0], f[1])
		return ""
	case "get":
		id := in.mc.msgID(in.msgs[f[1]])
		m, cnt, ok := in.mc.GetForPeer(id, peer.ID(f[2]))
		want := in.has(f[1])
		if ok != want {
			bad("get-presence", "GetForPeer found=%v, reference says %v", ok, want)
			return fmt.Sprint(ok)
		}
		if ok {
			in.refTx[f[1]+"|"+f[2]]++
			if cnt != in.refTx[f[1]+"|"+f[2]] {
				bad("get-count", "transmission count %d, reference %d", cnt, in.refTx[f[1]+"|"+f[2]])
				in.refTx[f[1]+"|"+f[2]] = cnt
			}
			if m != in.msgs[f[1]] {
				bad("get-message", "wrong message returned")
			}
		}
		return fmt.Sprint(ok, cnt)
	case "ids":
		got := in.mc.GetGossipIDs(f[1])
		var want []string
		for _, s := range in.ref[:in.g] {
			for _, l := range s {
				if in.topicOf[l] == f[1] {
					want = append(want, in.mc.msgID(in.msgs[l]))
				}
			}
		}
		gs, ws := append([]string{}, got...), append([]string{}, want...)
		sort.Strings(gs)
		sort.Strings(ws)
		if strings.Join(gs, ",") != strings.Join(ws, ",") {
			bad("gossip-ids", "GetGossipIDs(%s) = %q, reference %q", f[1], got, want)
		}
		return fmt.Sprint(len(got))
	case "shift":
		in.mc.Shift()
		last := in.ref[len(in.ref)-1]
		for i := len(in.ref) - 1; i > 0; i-- {
			in.ref[i] = in.ref[i-1]
		}
		in.ref[0] = nil
		for _, l := range last {
			if !in.has(l) { // the same label may have been put again more recently
				for k := range in.refTx {
					if strings.HasPrefix(k, l+"|") {
						delete(in.refTx, k)
					}
				}
			}
		}
		// the implementation forgets a message when its oldest copy leaves the window, even if it
		// was put again later: mirror only what the statement demands (retrievable for HistoryLength
		// shifts after the *last* put is not demanded) -- compare presence leniently for re-puts
		return ""
	}
	return ""
}

func (in *vfMCInst) Canon() string {
	return fmt.Sprintf("%v|%v|%s", in.ref, in.refTx, vfDump(in.mc, time.Time{}, nil))
}
func (in *vfMCInst) Finish(bool) string { return "" }

// ---------------------------------------------------------------- part B: node monitor

type vfC17Mon struct {
	putTick   map[string]uint64 // message label -> heartbeat count when the node accepted it
	served    map[string]int    // "peer|msg" -> number of times served through IWANT
	ihaveMsgs map[string]int    // per heartbeat
	asked     map[string]int    // per heartbeat
	idwMsgs   map[string]int    // per heartbeat
	seen      map[string]bool
	prom      map[string]time.Duration // "peer|msg" -> deadline of an outstanding IWANT promise (own model, fed by the wire)
}

func vfC17Canon(in *vfGWInst) string {
	m := in.mon.(*vfC17Mon)
	tk := in.last.Ticks
	var l []string
	for k, v := range m.putTick {
		l = append(l, fmt.Sprintf("put[%s]=-%d", k, tk-v))
	}
	for k, v := range m.served {
		l = append(l, fmt.Sprintf("srv[%s]=%d", k, v))
	}
	for k, v := range m.ihaveMsgs {
		l = append(l, fmt.Sprintf("ih[%s]=%d", k, v))
	}
	for k, v := range m.asked {
		l = append(l, fmt.Sprintf("ask[%s]=%d", k, v))
	}
	for k, v := range m.idwMsgs {
		l = append(l, fmt.Sprintf("idw[%s]=%d", k, v))
	}
	for k, v := range m.prom {
		l = append(l, fmt.Sprintf("prom[%s]=%d", k, (v-in.last.Now)/time.Millisecond))
	}
	sort.Strings(l)
	return strings.Join(l, ",") + "|" + strings.Join(vfKeys(m.seen), ",")
}

func vfIDWSupport(proto string) bool { return proto == "v12" || proto == "v13" }

func vfC17Oracle(in *vfGWInst, evFull string, pre, post *vfSnap) {
	g := in.g
	if !pre.OK || !post.OK || g.n.gs == nil {
		return
	}
	m := in.mon.(*vfC17Mon)
	ev, _ := vfSplitChoice(evFull)
	f := strings.Split(ev, ":")
	params := g.n.gs.params
	gossipThr := g.n.gs.gossipThreshold
	score := func(p string) float64 { return pre.Score[p] }
	labelsOnWire := func(p string, kind string) (rpcs int, ids []string) {
		for _, r := range g.sentTo(p) {
			c := r.GetControl()
			switch kind {
			case "ihave":
				for _, ih := range c.GetIhave() {
					rpcs++
					if len(ih.GetMessageIDs()) > params.MaxIHaveLength {
						in.bad("c17:ihave-too-long", "IHAVE to %s lists %d ids > MaxIHaveLength=%d", p, len(ih.GetMessageIDs()), params.MaxIHaveLength)
					}
					for _, id := range ih.GetMessageIDs() {
						ids = append(ids, g.idLabel(id))
					}
				}
			case "iwant":
				for _, iw := range c.GetIwant() {
					rpcs++
					for _, id := range iw.GetMessageIDs() {
						ids = append(ids, g.idLabel(id))
					}
				}
			case "idw":
				for _, dw := range c.GetIdontwant() {
					rpcs++
					for _, id := range dw.GetMessageIDs() {
						ids = append(ids, g.idLabel(id))
					}
				}
			case "msg":
				for _, pm := range r.GetPublish() {
					rpcs++
					ids = append(ids, g.msgLabel(pm))
				}
			}
		}
		sort.Strings(ids)
		return
	}
	// a message enters the message cache when it is published / forwarded, i.e. once validation released it
	for _, dl := range g.deliv {
		if _, ok := m.putTick[dl.id]; !ok {
			m.putTick[dl.id] = pre.Ticks
		}
	}
	if f[0] != "hb" && post.Ticks != pre.Ticks {
		// heartbeats elapsed inside a time advance: the per-heartbeat counters were reset
		m.ihaveMsgs, m.asked, m.idwMsgs = map[string]int{}, map[string]int{}, map[string]int{}
		// promises that expired before the last heartbeat of the step were penalised there: judge the sum
		lastHB := post.Now - (post.Now % params.HeartbeatInterval)
		expect := map[string]float64{}
		for k, deadline := range m.prom {
			if deadline < lastHB {
				expect[k[:strings.IndexByte(k, '|')]]++
				delete(m.prom, k)
			}
		}
		for _, p := range g.order {
			if _, tracked := pre.Penalty[p]; tracked {
				if d := post.Penalty[p] - pre.Penalty[p]; d != expect[p] {
					in.bad("c17:promise-penalty", "time advance over %d heartbeat(s) changed the behaviour penalty of %s by %v, but %v of its IWANT promises expired unanswered", post.Ticks-pre.Ticks, p, d, expect[p])
				}
			}
		}
	}
	switch f[0] {
	case "pub", "lpub":
		var label, topic, source string
		size := 4
		if f[0] == "pub" {
			source, label = f[1], f[2]
			topic = g.msgs[label].Topic
			size = g.msgs[label].Size
		} else {
			topic, label, source = f[1], "local:"+f[2], "N"
		}
		graylisted := source != "N" && !pre.Direct[source] && score(source) < g.n.gs.graylistThreshold
		accepted := f[0] == "lpub" || (g.conn[source] && !m.seen[label] && (pre.MySubs[topic] > 0 || pre.MyRelays[topic] > 0) && !graylisted)
		if accepted {
			// (a copy dropped at a full validation queue is not marked seen: the next copy is a first sighting again)
			m.seen[label] = in.sc.Name != "promises-queue-full"
			// the message arrived (from anyone): every promise for it is kept
			for k := range m.prom {
				if strings.HasSuffix(k, "|"+label) {
					delete(m.prom, k)
				}
			}
		}
		// IDONTWANT emission (only for messages received from a peer: Preprocess of local publications
		// also announces, with the node itself as sender)
		for _, p := range g.order {
			_, ids := labelsOnWire(p, "idw")
			if len(ids) == 0 {
				continue
			}
			in.count("idontwant_sent")
			switch {
			case p == source:
				in.bad("c17:idontwant-to-sender", "IDONTWANT for %v was sent to %s, the sender of the message", ids, p)
			case size < params.IDontWantMessageThreshold:
				in.bad("c17:idontwant-small", "IDONTWANT sent to %s for a %d-byte message (threshold %d)", p, size, params.IDontWantMessageThreshold)
			case !pre.Mesh[topic][p]:
				in.bad("c17:idontwant-nonmesh", "IDONTWANT sent to %s which is not in the mesh of %s", p, topic)
			case !vfIDWSupport(g.pcfg[p].Proto):
				in.bad("c17:idontwant-oldproto", "IDONTWANT sent to %s which speaks %s", p, g.pcfg[p].Proto)
			}
		}
		if f[0] == "pub" && g.conn[source] && !graylisted && size >= params.IDontWantMessageThreshold && !m.seenBefore(label, accepted) && (pre.MySubs[topic] > 0 || pre.MyRelays[topic] > 0) {
			for p := range pre.Mesh[topic] {
				if p != source && vfIDWSupport(g.pcfg[p].Proto) && pre.Queues[p] && !g.gated[p] {
					if _, ids := labelsOnWire(p, "idw"); len(ids) == 0 {
						in.bad("c17:idontwant-missing", "message %s (%d bytes) from %s was accepted into validation but no IDONTWANT was sent to mesh member %s (v1.2+)", label, size, source, p)
					}
				}
			}
		}
		// promise fulfilment: once the message arrived from anyone, nobody's promise for it remains
		if accepted {
			for p, l := range post.Promises {
				for _, x := range l {
					if x == label {
						in.bad("c17:promise-not-fulfilled", "message %s arrived but the IWANT promise of %s for it is still pending", label, p)
					}
				}
			}
		}
	case "iwant":
		x := f[1]
		if !g.conn[x] {
			return
		}
		graylisted := !pre.Direct[x] && score(x) < g.n.gs.graylistThreshold
		_, got := labelsOnWire(x, "msg")
		var want []string
		for _, label := range strings.Split(f[2], "+") {
			put, have := m.putTick[label]
			inWindow := have && pre.Ticks-put < uint64(params.HistoryLength)
			cs := computeChecksum(g.msgID(label))
			_, unwanted := pre.Unwanted[x][fmt.Sprintf("%x/%d", cs.payload[:8], cs.length)]
			if graylisted || score(x) < gossipThr || !inWindow || unwanted {
				continue
			}
			m.served[x+"|"+label]++
			if m.served[x+"|"+label] <= params.GossipRetransmission {
				want = append(want, label)
			} else {
				in.count("iwant_retransmission_cap_hit")
			}
			if pre.Ticks-put == uint64(params.HistoryLength)-1 {
				in.count("iwant_served_at_window_edge")
			}
		}
		sort.Strings(want)
		if strings.Join(got, ",") != strings.Join(want, ",") {
			in.bad("c17:iwant-service", "IWANT %s from %s was answered with %v, want %v (history %d heartbeats, retransmission cap %d, gossip threshold %v, score %v)", f[2], x, got, want, params.HistoryLength, params.GossipRetransmission, gossipThr, score(x))
		}
	case "ihave":
		x, topic := f[1], f[2]
		if !g.conn[x] {
			return
		}
		graylisted := !pre.Direct[x] && score(x) < g.n.gs.graylistThreshold
		rpcs, got := labelsOnWire(x, "iwant")
		if graylisted || score(x) < gossipThr {
			if rpcs > 0 {
				in.bad("c17:ihave-below-threshold", "IHAVE from %s (score %v < gossip threshold %v) was answered with IWANT %v", x, score(x), gossipThr, got)
			}
			return
		}
		m.ihaveMsgs[x]++
		expect := 0
		var unseen []string
		if m.ihaveMsgs[x] <= params.MaxIHaveMessages && m.asked[x] < params.MaxIHaveLength {
			if _, joined := pre.Mesh[topic]; joined {
				for i, label := range strings.Split(f[3], "+") {
					if i >= params.MaxIHaveLength {
						break
					}
					if !m.seen[label] {
						unseen = append(unseen, label)
					}
				}
			}
			expect = len(unseen)
			if expect+m.asked[x] > params.MaxIHaveLength {
				expect = params.MaxIHaveLength - m.asked[x]
			}
		} else {
			in.count("ihave_cap_hit")
		}
		m.asked[x] += expect
		gotN := len(got)
		if d := post.IAsked[x] - pre.IAsked[x]; d > gotN {
			// the request was decided in this step but is still queued: our stream to the peer is being re-opened
			// (the second death of a stream in a row is re-opened after a delay)
			gotN = d
			in.count("iwant_decided_but_still_queued")
		}
		if gotN != expect {
			in.bad("c17:iwant-count", "IHAVE %s from %s: node asked for %v, want %d id(s) of the unseen %v (IHAVEs this heartbeat %d/%d, asked so far %d/%d)", f[3], x, got, expect, unseen, m.ihaveMsgs[x], params.MaxIHaveMessages, m.asked[x]-expect, params.MaxIHaveLength)
		}
		for _, id := range got {
			if m.seen[id] {
				in.bad("c17:iwant-seen", "node asked %s for %s which it has already seen", x, id)
			}
			ok := false
			for _, u := range unseen {
				if u == id {
					ok = true
				}
			}
			if !ok {
				in.bad("c17:iwant-unadvertised", "node asked %s for %s which was not advertised as unseen", x, id)
			}
		}
		if expect > 0 {
			in.count("iwant_sent")
			if len(post.Promises[x]) == 0 {
				in.bad("c17:no-promise", "node sent IWANT to %s but tracks no promise", x)
			}
			// which of the requested ids the router tracks is its (explorer-owned) random pick: learn the pick
			// from the tracer, keep the deadline and the fulfilment in our own model
			for _, l := range post.Promises[x] {
				isNew := true
				for _, o := range pre.Promises[x] {
					if o == l {
						isNew = false
					}
				}
				if isNew {
					m.prom[x+"|"+l] = pre.Now + params.IWantFollowupTime
				}
			}
		}
	case "idw":
		x := f[1]
		if !g.conn[x] {
			return
		}
		graylisted := !pre.Direct[x] && score(x) < g.n.gs.graylistThreshold
		if graylisted {
			return
		}
		m.idwMsgs[x]++
		// (the length cap is per IDONTWANT message, i.e. per RPC, across all of its entries)
		ids := strings.Split(strings.ReplaceAll(f[2], "|", "+"), "+")
		for i, label := range ids {
			cs := computeChecksum(g.msgID(label))
			key := fmt.Sprintf("%x/%d", cs.payload[:8], cs.length)
			ttl, recorded := post.Unwanted[x][key]
			_, before := pre.Unwanted[x][key]
			honour := m.idwMsgs[x] <= params.MaxIDontWantMessages && i < params.MaxIDontWantLength
			if honour && (!recorded || ttl != params.IDontWantMessageTTL) {
				in.bad("c17:idontwant-not-recorded", "IDONTWANT %s from %s (message %d/%d this heartbeat, id %d/%d) was not recorded with TTL %d", label, x, m.idwMsgs[x], params.MaxIDontWantMessages, i+1, params.MaxIDontWantLength, params.IDontWantMessageTTL)
			}
			if !honour && recorded && !before {
				in.bad("c17:idontwant-over-cap", "IDONTWANT %s from %s was recorded beyond the caps (message %d/%d this heartbeat, id %d/%d)", label, x, m.idwMsgs[x], params.MaxIDontWantMessages, i+1, params.MaxIDontWantLength)
			}
			if !honour {
				in.count("idontwant_cap_hit")
			}
		}
	case "hb":
		if post.Ticks != pre.Ticks+1 {
			return
		}
		// per-heartbeat counters reset exactly once
		m.ihaveMsgs, m.asked, m.idwMsgs = map[string]int{}, map[string]int{}, map[string]int{}
		if len(post.PeerHave) != 0 || len(post.IAsked) != 0 || len(post.PeerDW) != 0 {
			in.bad("c17:counters-not-reset", "per-heartbeat counters survive a heartbeat: peerhave=%v iasked=%v peerdontwant=%v", post.PeerHave, post.IAsked, post.PeerDW)
		}
		// IDONTWANT TTL
		for p, mm := range pre.Unwanted {
			for k, ttl := range mm {
				nttl, ok := post.Unwanted[p][k]
				if ttl-1 <= 0 && ok {
					in.bad("c17:idontwant-ttl", "IDONTWANT of %s with TTL %d survived a heartbeat", p, ttl)
				}
				if ttl-1 > 0 && (!ok || nttl != ttl-1) {
					in.bad("c17:idontwant-ttl", "IDONTWANT of %s with TTL %d became %d (present=%v) after a heartbeat", p, ttl, nttl, ok)
				}
			}
		}
		// IHAVE emission: who, what, how many
		for t := range pre.Mesh {
			var window []string
			for label, put := range m.putTick {
				spec, ok := g.msgs[label]
				topic := "t"
				if ok {
					topic = spec.Topic
				} else if strings.HasPrefix(label, "local:") {
					topic = "t"
				}
				if topic != t {
					continue
				}
				j := post.Ticks - put // this is the j-th heartbeat after the put
				if j >= 1 && j <= uint64(params.HistoryGossip) {
					window = append(window, label)
				}
			}
			sort.Strings(window)
			var eligible []string
			for p := range pre.Topics[t] {
				// the mesh as it stands after this heartbeat's maintenance is what is excluded
				if post.Mesh[t][p] || pre.Direct[p] || !vfMeshCapable(pre.Peers[p]) || post.Score[p] < gossipThr {
					continue
				}
				eligible = append(eligible, p)
			}
			sort.Strings(eligible)
			for _, p := range g.order {
				_, ids := labelsOnWire(p, "ihave")
				if len(ids) == 0 {
					continue
				}
				in.count("ihave_sent")
				isEl := false
				for _, e := range eligible {
					if e == p {
						isEl = true
					}
				}
				if !isEl {
					why := "not a topic peer"
					switch {
					case post.Mesh[t][p]:
						why = "mesh member"
					case pre.Direct[p]:
						why = "direct peer"
					case !vfMeshCapable(pre.Peers[p]):
						why = "not gossipsub-capable"
					case post.Score[p] < gossipThr:
						why = fmt.Sprintf("score %v below the gossip threshold %v", post.Score[p], gossipThr)
					}
					in.bad("c17:ihave-recipient", "IHAVE %v was sent to %s (%s)", ids, p, why)
				}
				for _, id := range ids {
					ok := false
					for _, wl := range window {
						if wl == id {
							ok = true
						}
					}
					if !ok {
						put, known := m.putTick[id]
						in.bad("c17:ihave-outside-window", "IHAVE to %s advertises %s at heartbeat %d; it was cached at heartbeat %d (known=%v), HistoryGossip=%d", p, id, post.Ticks, put, known, params.HistoryGossip)
					}
				}
			}
			// completeness where the selection is exhaustive (<= Dlazy eligible peers)
			if len(eligible) <= params.Dlazy && len(window) > 0 {
				wantN := len(window)
				if wantN > params.MaxIHaveLength {
					wantN = params.MaxIHaveLength
					in.count("ihave_truncated")
				}
				for _, p := range eligible {
					if !pre.Queues[p] || g.gated[p] || !g.conn[p] {
						continue
					}
					_, ids := labelsOnWire(p, "ihave")
					if len(ids) != wantN {
						in.bad("c17:ihave-missing", "heartbeat %d: %s should be advertised %d of %v, got %v", post.Ticks, p, wantN, window, ids)
					}
				}
			}
		}
		// promise penalties: exactly the promises (own model) that expired without the message arriving from anyone
		expect := map[string]float64{}
		hbTime := post.Now - time.Millisecond // the heartbeat ran 1ms before the end of the step
		for k, deadline := range m.prom {
			if deadline < hbTime {
				p := k[:strings.IndexByte(k, '|')]
				expect[p]++
				delete(m.prom, k)
			}
		}
		for _, p := range g.order {
			if _, tracked := pre.Penalty[p]; !tracked {
				continue
			}
			d := post.Penalty[p] - pre.Penalty[p] // no decay: the harness' decay interval is one hour
			if d != expect[p] {
				in.bad("c17:promise-penalty", "heartbeat changed the behaviour penalty of %s by %v, but %v of its IWANT promises expired unanswered", p, d, expect[p])
			}
			if expect[p] > 0 {
				in.count("broken_promises_penalised")
			}
		}
	}
}

func (m *vfC17Mon) seenBefore(label string, acceptedNow bool) bool {
	return m.seen[label] && !acceptedNow
}

func vfC17Scenarios(thorough bool) []*vfGWScenario {
	var out []*vfGWScenario
	d := 4
	if thorough {
		d = 6
	}
	peers := []vfPeerCfg{{Name: "a", Proto: "v11", IP: "10.0.0.1"}, {Name: "b", Proto: "v12", IP: "10.0.0.2"}, {Name: "c", Proto: "v12", IP: "10.0.0.3"},
		{Name: "d", Proto: "v12", IP: "10.0.0.4"}, {Name: "e", Proto: "fs", IP: "10.0.0.5"}}
	msgs := map[string]vfMsgSpec{
		"m1": {Topic: "t", Author: "x", Seq: 1, Size: 32}, "m2": {Topic: "t", Author: "x", Seq: 2, Size: 32}, "m3": {Topic: "t", Author: "x", Seq: 3, Size: 32},
		"s1": {Topic: "t", Author: "x", Seq: 4, Size: 4}, "m5": {Topic: "t", Author: "x", Seq: 5, Size: 32}, "m6": {Topic: "t", Author: "x", Seq: 6, Size: 32},
	}
	// a,d stay outside the mesh (gossip targets); b,c are grafted into it
	prefix := []string{"conn:a", "conn:b", "conn:c", "conn:d", "conn:e", "sub:b:t", "sub:c:t", "join:t", "sub:a:t", "sub:d:t", "sub:e:t"}
	mk := func(name string, alphabet []string) {
		out = append(out, &vfGWScenario{Name: name, Cfg: vfGWCfg{Router: "gossip", Peers: peers, Topics: []string{"t"}, Params: "d2", Scoring: true, Prefix: prefix, SeenTTL: 3600},
			Alphabet: alphabet, Msgs: msgs, Depth: d, DevKinds: []string{"strings", "pick"}, DevEvents: []string{"ihave", "hb"}, DevMax: 3})
	}
	mk("window", []string{"pub:b:m1", "pub:c:m2", "pub:b:m3", "lpub:t:p1", "hb", "iwant:a:m1", "iwant:d:m1", "iwant:a:m1+m2", "score:a:-1.5", "score:a:-1", "idw:a:m1"})
	// the same with the history length at its default and a gossip window of one heartbeat
	mk("window-hg1", []string{"pub:b:m1", "pub:c:m2", "lpub:t:p1", "hb", "iwant:a:m1", "iwant:d:m1", "iwant:a:m1+m2"})
	out[len(out)-1].Cfg.Params = "d2hg"
	out[len(out)-1].Depth = d + 2
	mk("ihave-caps", []string{"ihave:a:t:m1", "ihave:a:t:m2+m3", "ihave:a:t:m1+m2+m3", "ihave:d:t:m5", "ihave:a:t:m6", "pub:b:m1", "hb", "score:a:-1.5", "score:a:-1", "leave:t"})
	// the budget of requested IDs is per peer and heartbeat, across as many IHAVEs as are honoured
	// (... and across re-opened streams: a peer that resets our stream to it gets a new stream, not a new budget)
	mk("ihave-budget", []string{"ihave:a:t:m1", "ihave:a:t:m2", "ihave:a:t:m3", "ihave:a:t:m5", "ihave:a:t:m5+m6", "ihave:d:t:m6", "hb", "outreset:a"})
	out[len(out)-1].Cfg.Params = "d2ih"
	out[len(out)-1].Depth = d + 1
	mk("idontwant", []string{"idw:b:m1", "idw:b:m2", "idw:b:m1+m2+m3", "idw:b:m1|m2|m3", "idw:b:m5+m1|m6", "idw:a:m3", "pub:c:m1", "pub:c:s1", "pub:a:m2", "hb", "prune:b:t", "graft:a:t"})
	mk("promises", []string{"ihave:a:t:m1", "ihave:d:t:m1", "ihave:a:t:m2+m3", "pub:b:m1", "pub:a:m2", "hb", "adv:2100", "adv:900"})
	// the promised message arrives in time but sits in (gated) validation across the follow-up deadline
	mk("promises-slow-validation", []string{"ihave:a:t:m1", "ihave:d:t:m1", "pub:a:m1", "pub:b:m1", "vrel:V:m1:A", "vrel:V:m1:I", "hb", "adv:2100", "adv:900"})
	out[len(out)-1].Cfg.Validators = []vfValCfg{{Name: "V", Topic: "t", Gated: true, Verdict: "A"}}
	out[len(out)-1].Depth = d + 1
	// the promised message arrives in time but the validation queue is full for the whole scenario (prefix: one worker
	// parked in an inline validator on m5, m6 in the queue of one, nothing is ever released): every copy is dropped at
	// the queue, unseen and unvalidated, yet the promise was kept -- nobody is penalised for the node's own congestion
	// (C04: "validation is throttled => dropped without penalising anyone")
	mk("promises-queue-full", []string{"ihave:a:t:m1", "ihave:d:t:m1", "pub:a:m1", "pub:b:m1", "hb", "adv:2100", "adv:900"})
	out[len(out)-1].Cfg.Validators = []vfValCfg{{Name: "V", Topic: "t", Inline: true, Gated: true, Verdict: "A"}}
	out[len(out)-1].Cfg.Workers, out[len(out)-1].Cfg.ValQueue = 1, 1
	out[len(out)-1].Cfg.Prefix = append(append([]string{}, prefix...), "pub:b:m5", "pub:c:m6")
	out[len(out)-1].Depth = d + 1
	// a heartbeat that grafts opportunistically (every tick, two peers) while there is something to gossip about: who
	// is a mesh member -- and therefore gets no IHAVE -- is decided by the whole of the heartbeat's mesh maintenance
	out = append(out, &vfGWScenario{Name: "gossip-oppgraft", Cfg: vfGWCfg{Router: "gossip", Peers: peers, Topics: []string{"t"}, Params: "d4og", Scoring: true, SeenTTL: 3600,
		Prefix: []string{"conn:a", "conn:b", "conn:c", "conn:d", "conn:e", "sub:a:t", "sub:b:t", "sub:c:t", "join:t", "sub:d:t", "sub:e:t", "score:a:0.3", "score:b:0.2", "score:c:0.1"}},
		Alphabet: []string{"pub:b:m1", "pub:c:m2", "lpub:t:p1", "hb", "score:d:0.7", "score:d:0", "score:a:0.9", "prune:a:t"}, Msgs: msgs, Depth: d,
		DevKinds: []string{"strings", "pick", "peers"}, DevEvents: []string{"hb"}, DevMax: 3})
	return out
}

func vfC17Mk(x *vfExec, sc *vfGWScenario) vfInstance {
	in := newVfGWInst(x, sc, nil)
	in.mon = &vfC17Mon{putTick: map[string]uint64{}, served: map[string]int{}, ihaveMsgs: map[string]int{}, asked: map[string]int{}, idwMsgs: map[string]int{}, seen: map[string]bool{}, prom: map[string]time.Duration{}}
	in.monCanon = vfC17Canon
	in.oracle = vfC17Oracle
	return in
}

func init() {
	vfRegister("C17", &vfCheck{
		run: func(r *vfRun) {
			depth := 7
			if r.thorough {
				depth = 9
			}
			for _, gh := range [][2]int{{1, 1}, {1, 2}, {2, 3}} {
				if _, ok := r.nextCase(); ok {
					gh := gh
					vfExplore(r, &vfExploreCfg{Scenario: map[string]any{"part": "mcache", "gossip": gh[0], "history": gh[1]}, Name: fmt.Sprintf("mcache-%d-%d", gh[0], gh[1]),
						MaxDepth: depth, New: func(x *vfExec) vfInstance { return vfMCNew(x, gh[0], gh[1]) }})
				}
			}
			vfRunGWScenarios(r, vfC17Scenarios(r.thorough), vfC17Mk)
		},
		replay: func(r *vfRun, raw json.RawMessage) {
			var c struct {
				Scenario struct {
					Part    string `json:"part"`
					Gossip  int    `json:"gossip"`
					History int    `json:"history"`
				} `json:"scenario"`
			}
			json.Unmarshal(raw, &c)
			if c.Scenario.Part == "mcache" {
				vfReplayCase(r, &vfExploreCfg{Name: "mcache", New: func(x *vfExec) vfInstance { return vfMCNew(x, c.Scenario.Gossip, c.Scenario.History) }}, raw)
				return
			}
			vfReplayGWScenario(r, raw, vfC17Mk)
		},
	})
}
