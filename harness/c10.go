package pubsub

// C10: peer scores equal the GossipSub v1.1 scoring function of the peer's history.
//
// The real peerScore is driven directly (through its tracer / router entry
// points, with a stub host for IP colocation and a synctest clock) with every
// event sequence up to the depth bound; an independently written reference
// implementation of the spec is fed the same events and clock and compared
// after every event.  Parameter sets: three full ones and every
// SkipAtomicValidation subset of topic parameter groups that validate() accepts.
// A second part starts a real node with each accepted parameter set (panics in
// library goroutines are attributed through the in-flight marker).

import (
	"encoding/json"
	"fmt"
	"io"
	"log/slog"
	"math"
	"net"
	"sort"
	"strings"
	"testing/synctest"
	"time"

	pb "github.com/libp2p/go-libp2p-pubsub/pb"
	"github.com/libp2p/go-libp2p/core/peer"
)

// ---------------------------------------------------------------- reference model (spec v1.1)

type refTopic struct {
	inMesh                        bool
	graftTime                     time.Time
	meshTime                      time.Duration
	first, mesh, failure, invalid float64
	active                        bool
}

type refPeer struct {
	connected bool
	expire    time.Time
	topics    map[string]*refTopic
	penalty   float64
	ips       []string
}

type refRecord struct {
	status    string // "", valid, invalid, ignored, throttled
	firstSeen time.Time
	validated time.Time
	peers     map[string]bool
}

type refScore struct {
	params  *PeerScoreParams
	app     map[string]float64
	peers   map[string]*refPeer
	records map[string]*refRecord
	order   []string // record creation order (for expiry)
	ipOf    func(p string) []string
	seenTTL time.Duration
}

func (r *refScore) tstats(p, t string) *refTopic {
	ps, ok := r.peers[p]
	if !ok {
		return nil
	}
	if ts, ok := ps.topics[t]; ok {
		return ts
	}
	if _, scored := r.params.Topics[t]; !scored {
		return nil
	}
	ts := &refTopic{}
	ps.topics[t] = ts
	return ts
}

func (r *refScore) score(p string) float64 {
	ps, ok := r.peers[p]
	if !ok {
		return 0
	}
	total := 0.0
	for t, ts := range ps.topics {
		tp, ok := r.params.Topics[t]
		if !ok {
			continue
		}
		s := 0.0
		if ts.inMesh && tp.TimeInMeshWeight != 0 { // P1 is only defined when it is configured
			p1 := float64(ts.meshTime / tp.TimeInMeshQuantum)
			if p1 > tp.TimeInMeshCap {
				p1 = tp.TimeInMeshCap
			}
			s += p1 * tp.TimeInMeshWeight
		}
		s += ts.first * tp.FirstMessageDeliveriesWeight
		if ts.active && ts.mesh < tp.MeshMessageDeliveriesThreshold {
			d := tp.MeshMessageDeliveriesThreshold - ts.mesh
			s += d * d * tp.MeshMessageDeliveriesWeight
		}
		s += ts.failure * tp.MeshFailurePenaltyWeight
		s += ts.invalid * ts.invalid * tp.InvalidMessageDeliveriesWeight
		total += s * tp.TopicWeight
	}
	if r.params.TopicScoreCap > 0 && total > r.params.TopicScoreCap {
		total = r.params.TopicScoreCap
	}
	total += r.app[p] * r.params.AppSpecificWeight
	total += r.colocation(p) * r.params.IPColocationFactorWeight
	if ps.penalty > r.params.BehaviourPenaltyThreshold {
		e := ps.penalty - r.params.BehaviourPenaltyThreshold
		total += e * e * r.params.BehaviourPenaltyWeight
	}
	return total
}

func (r *refScore) colocation(p string) float64 {
	ps := r.peers[p]
	res := 0.0
	for _, ip := range ps.ips {
		white := false
		for _, n := range r.params.IPColocationFactorWhitelist {
			if n.Contains(net.ParseIP(ip)) {
				white = true
			}
		}
		if white {
			continue
		}
		n := 0
		for _, q := range r.peers {
			for _, x := range q.ips {
				if x == ip {
					n++
					break
				}
			}
		}
		if n > r.params.IPColocationFactorThreshold {
			s := float64(n - r.params.IPColocationFactorThreshold)
			res += s * s
		}
	}
	return res
}

func (r *refScore) connect(p string) {
	ps, ok := r.peers[p]
	if !ok {
		ps = &refPeer{topics: map[string]*refTopic{}}
		r.peers[p] = ps
	}
	ps.connected = true
	ps.ips = r.ipOf(p)
}

func (r *refScore) disconnect(p string, now time.Time) {
	ps, ok := r.peers[p]
	if !ok {
		return
	}
	if r.score(p) > 0 {
		delete(r.peers, p)
		return
	}
	for t, ts := range ps.topics {
		ts.first = 0
		thr := r.params.Topics[t].MeshMessageDeliveriesThreshold
		if ts.inMesh && ts.active && ts.mesh < thr {
			d := thr - ts.mesh
			ts.failure += d * d
		}
		ts.inMesh = false
	}
	ps.connected = false
	ps.expire = now.Add(r.params.RetainScore)
}

func (r *refScore) graft(p, t string, now time.Time) {
	if ts := r.tstats(p, t); ts != nil {
		ts.inMesh, ts.graftTime, ts.meshTime, ts.active = true, now, 0, false
	}
}

func (r *refScore) prune(p, t string) {
	if ts := r.tstats(p, t); ts != nil {
		thr := r.params.Topics[t].MeshMessageDeliveriesThreshold
		if ts.active && ts.mesh < thr {
			d := thr - ts.mesh
			ts.failure += d * d
		}
		ts.inMesh = false
	}
}

func (r *refScore) record(id string, now time.Time) *refRecord {
	if rec, ok := r.records[id]; ok {
		return rec
	}
	rec := &refRecord{firstSeen: now, peers: map[string]bool{}}
	r.records[id] = rec
	r.order = append(r.order, id)
	return rec
}

func (r *refScore) markFirst(p, t string) {
	ts := r.tstats(p, t)
	if ts == nil {
		return
	}
	tp := r.params.Topics[t]
	ts.first = math.Min(ts.first+1, tp.FirstMessageDeliveriesCap)
	if ts.inMesh {
		ts.mesh = math.Min(ts.mesh+1, tp.MeshMessageDeliveriesCap)
	}
}

func (r *refScore) markDup(p, t string, validated time.Time, now time.Time) {
	ts := r.tstats(p, t)
	if ts == nil || !ts.inMesh {
		return
	}
	tp := r.params.Topics[t]
	if !validated.IsZero() && now.Sub(validated) > tp.MeshMessageDeliveriesWindow {
		return
	}
	ts.mesh = math.Min(ts.mesh+1, tp.MeshMessageDeliveriesCap)
}

func (r *refScore) markInvalid(p, t string) {
	if ts := r.tstats(p, t); ts != nil {
		ts.invalid++
	}
}

func (r *refScore) deliver(id, p, t string, now time.Time) {
	r.markFirst(p, t)
	rec := r.record(id, now)
	if rec.status != "" {
		return
	}
	rec.status, rec.validated = "valid", now
	for q := range rec.peers {
		if q != p {
			r.markDup(q, t, time.Time{}, now)
		}
	}
}

func (r *refScore) reject(id, p, t, reason string, now time.Time) {
	switch reason {
	case RejectMissingSignature, RejectInvalidSignature, RejectUnexpectedSignature, RejectUnexpectedAuthInfo, RejectSelfOrigin:
		r.markInvalid(p, t)
		return
	case RejectBlacklstedPeer, RejectBlacklistedSource, RejectValidationQueueFull:
		return
	}
	rec := r.record(id, now)
	if rec.status != "" {
		return
	}
	switch reason {
	case RejectValidationThrottled:
		rec.status, rec.peers = "throttled", map[string]bool{}
		return
	case RejectValidationIgnored:
		rec.status, rec.peers = "ignored", map[string]bool{}
		return
	}
	rec.status = "invalid"
	r.markInvalid(p, t)
	for q := range rec.peers {
		r.markInvalid(q, t)
	}
	rec.peers = map[string]bool{}
}

func (r *refScore) duplicate(id, p, t string, now time.Time) {
	rec := r.record(id, now)
	if rec.peers[p] {
		return
	}
	switch rec.status {
	case "":
		rec.peers[p] = true
	case "valid":
		rec.peers[p] = true
		r.markDup(p, t, rec.validated, now)
	case "invalid":
		r.markInvalid(p, t)
	}
}

func (r *refScore) decay(now time.Time) {
	dtz := r.params.DecayToZero
	dz := func(v, d float64) float64 {
		v *= d
		if v < dtz {
			return 0
		}
		return v
	}
	for p, ps := range r.peers {
		if !ps.connected {
			if now.After(ps.expire) {
				delete(r.peers, p)
			}
			continue
		}
		for t, ts := range ps.topics {
			tp, ok := r.params.Topics[t]
			if !ok {
				continue
			}
			ts.first = dz(ts.first, tp.FirstMessageDeliveriesDecay)
			ts.mesh = dz(ts.mesh, tp.MeshMessageDeliveriesDecay)
			ts.failure = dz(ts.failure, tp.MeshFailurePenaltyDecay)
			ts.invalid = dz(ts.invalid, tp.InvalidMessageDeliveriesDecay)
			if ts.inMesh {
				ts.meshTime = now.Sub(ts.graftTime)
				if ts.meshTime > tp.MeshMessageDeliveriesActivation {
					ts.active = true
				}
			}
		}
		ps.penalty = dz(ps.penalty, r.params.BehaviourPenaltyDecay)
	}
}

func (r *refScore) gc(now time.Time) {
	for len(r.order) > 0 {
		id := r.order[0]
		rec := r.records[id]
		if rec == nil || now.After(rec.firstSeen.Add(r.seenTTL)) {
			delete(r.records, id)
			r.order = r.order[1:]
			continue
		}
		break
	}
}

func (r *refScore) setParams(t string, np *TopicScoreParams) {
	old, had := r.params.Topics[t]
	r.params.Topics[t] = np
	if !had {
		return
	}
	if np.FirstMessageDeliveriesCap < old.FirstMessageDeliveriesCap || np.MeshMessageDeliveriesCap < old.MeshMessageDeliveriesCap {
		for _, ps := range r.peers {
			if ts, ok := ps.topics[t]; ok {
				ts.first = math.Min(ts.first, np.FirstMessageDeliveriesCap)
				ts.mesh = math.Min(ts.mesh, np.MeshMessageDeliveriesCap)
			}
		}
	}
}

// ---------------------------------------------------------------- parameter sets

func vfC10Topic(name string) *TopicScoreParams {
	switch name {
	case "full":
		return &TopicScoreParams{TopicWeight: 1, TimeInMeshWeight: 0.5, TimeInMeshQuantum: time.Second, TimeInMeshCap: 3,
			FirstMessageDeliveriesWeight: 1, FirstMessageDeliveriesDecay: 0.5, FirstMessageDeliveriesCap: 2,
			MeshMessageDeliveriesWeight: -1, MeshMessageDeliveriesDecay: 0.5, MeshMessageDeliveriesCap: 3, MeshMessageDeliveriesThreshold: 2,
			MeshMessageDeliveriesWindow: 500 * time.Millisecond, MeshMessageDeliveriesActivation: time.Second,
			MeshFailurePenaltyWeight: -1, MeshFailurePenaltyDecay: 0.5, InvalidMessageDeliveriesWeight: -2, InvalidMessageDeliveriesDecay: 0.5}
	case "alt":
		return &TopicScoreParams{TopicWeight: 2, TimeInMeshWeight: 1, TimeInMeshQuantum: 700 * time.Millisecond, TimeInMeshCap: 2,
			FirstMessageDeliveriesWeight: 3, FirstMessageDeliveriesDecay: 0.9, FirstMessageDeliveriesCap: 1.5,
			MeshMessageDeliveriesWeight: -0.5, MeshMessageDeliveriesDecay: 0.2, MeshMessageDeliveriesCap: 1, MeshMessageDeliveriesThreshold: 1,
			MeshMessageDeliveriesWindow: 0, MeshMessageDeliveriesActivation: 2 * time.Second,
			MeshFailurePenaltyWeight: -3, MeshFailurePenaltyDecay: 0.9, InvalidMessageDeliveriesWeight: -1, InvalidMessageDeliveriesDecay: 0.1}
	case "lowcap":
		p := vfC10Topic("full")
		p.FirstMessageDeliveriesCap, p.MeshMessageDeliveriesCap = 1, 1
		return p
	case "lowmesh": // only the mesh-delivery cap goes down, to a value that is still above the first-delivery cap
		p := vfC10Topic("full")
		p.MeshMessageDeliveriesCap = 2.5
		return p
	case "lowfirst": // only the first-delivery cap goes down
		p := vfC10Topic("full")
		p.FirstMessageDeliveriesCap = 1
		return p
	}
	// "skip:<bits>": SkipAtomicValidation with the parameter groups whose bit is 0 left at zero
	var bits int
	fmt.Sscanf(name, "skip:%d", &bits)
	f := vfC10Topic("full")
	p := &TopicScoreParams{SkipAtomicValidation: true, TopicWeight: 1}
	if bits&1 != 0 {
		p.TimeInMeshWeight, p.TimeInMeshQuantum, p.TimeInMeshCap = f.TimeInMeshWeight, f.TimeInMeshQuantum, f.TimeInMeshCap
	}
	if bits&2 != 0 {
		p.FirstMessageDeliveriesWeight, p.FirstMessageDeliveriesDecay, p.FirstMessageDeliveriesCap = f.FirstMessageDeliveriesWeight, f.FirstMessageDeliveriesDecay, f.FirstMessageDeliveriesCap
	}
	if bits&4 != 0 {
		p.MeshMessageDeliveriesWeight, p.MeshMessageDeliveriesDecay, p.MeshMessageDeliveriesCap = f.MeshMessageDeliveriesWeight, f.MeshMessageDeliveriesDecay, f.MeshMessageDeliveriesCap
		p.MeshMessageDeliveriesThreshold, p.MeshMessageDeliveriesWindow, p.MeshMessageDeliveriesActivation = f.MeshMessageDeliveriesThreshold, f.MeshMessageDeliveriesWindow, f.MeshMessageDeliveriesActivation
	}
	if bits&8 != 0 {
		p.MeshFailurePenaltyWeight, p.MeshFailurePenaltyDecay = f.MeshFailurePenaltyWeight, f.MeshFailurePenaltyDecay
	}
	if bits&16 != 0 {
		p.InvalidMessageDeliveriesWeight, p.InvalidMessageDeliveriesDecay = f.InvalidMessageDeliveriesWeight, f.InvalidMessageDeliveriesDecay
	}
	return p
}

func vfC10Params(name string, app func(peer.ID) float64) *PeerScoreParams {
	_, wl, _ := net.ParseCIDR("10.7.0.0/16")
	p := &PeerScoreParams{AppSpecificScore: app, AppSpecificWeight: 1, DecayInterval: time.Second, DecayToZero: 0.1, RetainScore: 3 * time.Second, SeenMsgTTL: 4 * time.Second,
		IPColocationFactorWeight: -1, IPColocationFactorThreshold: 1, IPColocationFactorWhitelist: []*net.IPNet{wl},
		BehaviourPenaltyWeight: -1, BehaviourPenaltyThreshold: 1, BehaviourPenaltyDecay: 0.5, Topics: map[string]*TopicScoreParams{}}
	switch {
	case name == "full":
		p.Topics["t"] = vfC10Topic("full")
	case name == "alt":
		p.Topics["t"] = vfC10Topic("alt")
		p.Topics["v"] = vfC10Topic("full")
		p.TopicScoreCap = 2
		p.BehaviourPenaltyThreshold = 0
		p.IPColocationFactorThreshold = 2
	case strings.HasPrefix(name, "skip:"):
		p.Topics["t"] = vfC10Topic(name)
	case name == "peer-skip":
		// peer-level groups left at zero under SkipAtomicValidation (decay settings kept: they drive the ticker)
		p = &PeerScoreParams{SkipAtomicValidation: true, DecayInterval: time.Second, DecayToZero: 0.1, RetainScore: 3 * time.Second, Topics: map[string]*TopicScoreParams{"t": vfC10Topic("full")}}
	}
	return p
}

func vfC10ParamNames(thorough bool) []string {
	names := []string{"full", "alt", "peer-skip"}
	for b := 0; b < 32; b++ {
		if !thorough && b != 0 && b != 1 && b != 30 && b != 4 && b != 27 && b != 31 {
			continue
		}
		names = append(names, fmt.Sprintf("skip:%d", b))
	}
	return names
}

// ---------------------------------------------------------------- instance

type vfC10Inst struct {
	x     *vfExec
	name  string
	w     *vfWorld
	h     *vfHost
	ps    *peerScore
	ref   *refScore
	app   map[string]float64
	ipcfg map[string]string
	t0    time.Time
	msgs  map[string]*Message
	valid bool
	extra []string // events offered in addition to the common alphabet (per start state)
}

var vfC10Peers = []string{"p", "q"}

func vfC10New(x *vfExec, pname string) *vfC10Inst {
	in := &vfC10Inst{x: x, name: pname, w: newVfWorld(), app: map[string]float64{}, ipcfg: map[string]string{"p": "10.1.1.1", "q": "10.1.1.1"}, t0: time.Now(), msgs: map[string]*Message{}}
	in.h = newVfHost(in.w, "N")
	for _, p := range vfC10Peers {
		newVfFake(in.w, p, GossipSubID_v11)
	}
	appFn := func(p peer.ID) float64 { return in.app[vfName(p)] }
	params := vfC10Params(pname, appFn)
	if err := params.validate(); err != nil {
		in.valid = false
		return in
	}
	in.valid = true
	in.ps = newPeerScore(params, slog.New(slog.NewTextHandler(io.Discard, nil)))
	in.ps.host = in.h
	refParams := vfC10Params(pname, appFn)
	refParams.validate() // fills the defaults validate() fills (AppSpecificScore under SkipAtomicValidation)
	seen := refParams.SeenMsgTTL
	if seen == 0 {
		seen = TimeCacheDuration
	}
	in.ref = &refScore{params: refParams, app: in.app, peers: map[string]*refPeer{}, records: map[string]*refRecord{}, seenTTL: seen,
		ipOf: func(p string) []string {
			if in.w.connected(in.h.ident.id, vfIdentity(p).id) {
				return []string{in.ipcfg[p]}
			}
			return nil
		}}
	for i, l := range []string{"m1", "m2", "m3"} { // (m3 only occurs in start states)
		topic := "t"
		in.msgs[l] = &Message{Message: &pb.Message{From: []byte("author"), Seqno: []byte{byte(i + 1)}, Topic: &topic, Data: []byte(l)}}
	}
	topic := "u"
	in.msgs["mu"] = &Message{Message: &pb.Message{From: []byte("author"), Seqno: []byte{9}, Topic: &topic, Data: []byte("mu")}}
	return in
}

func (in *vfC10Inst) Enabled() []string {
	if !in.valid {
		return nil
	}
	evs := []string{"decay", "gc", "adv:100", "adv:600", "adv:1000", "adv:3100", "setparams:lowcap", "app:p:-1", "app:p:2", "ip:q:10.1.1.2", "ip:q:10.7.0.1", "ips",
		"val:m1:p", "deliver:m1:p", "deliver:m1:q", "deliver:m2:p", "dup:m1:p", "dup:m1:q", "deliver:mu:p",
		"reject:m1:p:" + RejectValidationFailed, "reject:m1:p:" + RejectValidationIgnored, "reject:m1:p:" + RejectValidationThrottled, "reject:m2:q:" + RejectInvalidSignature,
		"reject:m2:p:" + RejectValidationQueueFull, "reject:m2:p:" + RejectSelfOrigin}
	for _, p := range vfC10Peers {
		if in.w.connected(in.h.ident.id, vfIdentity(p).id) {
			evs = append(evs, "disc:"+p, "graft:"+p+":t", "prune:"+p+":t", "penalty:"+p+":2")
		} else {
			evs = append(evs, "conn:"+p)
		}
	}
	evs = append(evs, "graft:p:u")
	evs = append(evs, in.extra...)
	return evs
}

func (in *vfC10Inst) Apply(ev string, judge bool) string {
	f := strings.Split(ev, ":")
	now := time.Now()
	pid := func(s string) peer.ID { return vfIdentity(s).id }
	msg := func(l, from string) *Message {
		m := *in.msgs[l]
		m.ReceivedFrom = pid(from)
		return &m
	}
	id := func(l string) string { return DefaultMsgIdFn(in.msgs[l].Message) }
	switch f[0] {
	case "conn":
		in.w.connect(in.h.ident.id, pid(f[1]), "10.9.9.9", in.ipcfg[f[1]])
		in.w.mu.Lock()
		in.w.conns[[2]peer.ID{in.h.ident.id, pid(f[1])}].addr = vfIPAddr(in.ipcfg[f[1]])
		in.w.mu.Unlock()
		in.ps.OnNewOutboundStream(pid(f[1]), GossipSubID_v11)
		in.ref.connect(f[1])
	case "disc":
		in.w.disconnect(in.h.ident.id, pid(f[1]))
		in.ps.OnClosedOutboundStream(pid(f[1]))
		in.ref.disconnect(f[1], now)
	case "graft":
		in.ps.Graft(pid(f[1]), f[2])
		in.ref.graft(f[1], f[2], now)
	case "prune":
		in.ps.Prune(pid(f[1]), f[2])
		in.ref.prune(f[1], f[2])
	case "val":
		in.ps.ValidateMessage(msg(f[1], f[2]))
		in.ref.record(id(f[1]), now)
	case "deliver":
		in.ps.DeliverMessage(msg(f[1], f[2]))
		in.ref.deliver(id(f[1]), f[2], in.msgs[f[1]].GetTopic(), now)
	case "reject":
		in.ps.RejectMessage(msg(f[1], f[2]), f[3])
		in.ref.reject(id(f[1]), f[2], in.msgs[f[1]].GetTopic(), f[3], now)
	case "dup":
		in.ps.DuplicateMessage(msg(f[1], f[2]))
		in.ref.duplicate(id(f[1]), f[2], in.msgs[f[1]].GetTopic(), now)
	case "penalty":
		var n int
		fmt.Sscanf(f[2], "%d", &n)
		in.ps.AddPenalty(pid(f[1]), n)
		if ps, ok := in.ref.peers[f[1]]; ok {
			ps.penalty += float64(n)
		}
	case "decay":
		in.ps.refreshScores()
		in.ref.decay(now)
	case "gc":
		in.ps.gcDeliveryRecords()
		in.ref.gc(now)
	case "adv":
		var ms int
		fmt.Sscanf(f[1], "%d", &ms)
		time.Sleep(time.Duration(ms) * time.Millisecond)
		synctest.Wait()
	case "setparams":
		if _, ok := in.ps.params.Topics["t"]; ok {
			np := vfC10Topic(f[1])
			if np.validate() == nil {
				in.ps.SetTopicScoreParams("t", np)
				in.ref.setParams("t", vfC10Topic(f[1]))
			}
		}
	case "app":
		var v float64
		fmt.Sscanf(f[2], "%g", &v)
		in.app[f[1]] = v
	case "ip":
		in.ipcfg[f[1]] = f[2]
		in.w.mu.Lock()
		if c, ok := in.w.conns[[2]peer.ID{in.h.ident.id, pid(f[1])}]; ok {
			c.addr = vfIPAddr(f[2])
		}
		in.w.mu.Unlock()
	case "ips":
		in.ps.refreshIPs()
		for p, ps := range in.ref.peers {
			if ps.connected {
				ps.ips = in.ref.ipOf(p)
			}
		}
	}
	return in.compare(ev)
}

func (in *vfC10Inst) compare(ev string) string {
	bad := func(fp, format string, a ...any) {
		in.x.violation("c10:"+fp, fmt.Sprintf("[params %s] after %s: ", in.name, ev)+fmt.Sprintf(format, a...))
	}
	var obs []string
	for _, p := range vfC10Peers {
		got := in.ps.Score(vfIdentity(p).id)
		want := in.ref.score(p)
		if math.IsNaN(got) || math.IsInf(got, 0) {
			bad("nan", "score of %s is %v", p, got)
		}
		tol := 1e-9 * math.Max(1, math.Abs(want))
		if math.Abs(got-want) > tol {
			bad("score-mismatch", "score of %s is %v, the spec reference says %v (impl stats %s / reference %s)", p, got, want, in.implStats(p), in.refStats(p))
		}
		obs = append(obs, fmt.Sprintf("%s=%.6g", p, got))
	}
	// counters, presence and component signs
	in.ps.Lock()
	for _, p := range vfC10Peers {
		st, ok := in.ps.peerStats[vfIdentity(p).id]
		rp, rok := in.ref.peers[p]
		if ok != rok {
			bad("retention", "stats of %s present=%v, reference says %v", p, ok, rok)
			continue
		}
		if !ok {
			continue
		}
		if st.connected != rp.connected {
			bad("retention", "stats of %s connected=%v, reference %v", p, st.connected, rp.connected)
		}
		if st.behaviourPenalty < 0 {
			bad("negative-counter", "behaviour penalty of %s is %v", p, st.behaviourPenalty)
		}
		for t, ts := range st.topics {
			tp := in.ps.params.Topics[t]
			if tp == nil {
				continue
			}
			for name, v := range map[string]float64{"firstMessageDeliveries": ts.firstMessageDeliveries, "meshMessageDeliveries": ts.meshMessageDeliveries, "meshFailurePenalty": ts.meshFailurePenalty, "invalidMessageDeliveries": ts.invalidMessageDeliveries} {
				if v < 0 || math.IsNaN(v) {
					bad("negative-counter", "%s of %s on %s is %v", name, p, t, v)
				}
			}
			if tp.FirstMessageDeliveriesCap > 0 && ts.firstMessageDeliveries > tp.FirstMessageDeliveriesCap {
				bad("over-cap", "firstMessageDeliveries of %s is %v > cap %v", p, ts.firstMessageDeliveries, tp.FirstMessageDeliveriesCap)
			}
			if tp.MeshMessageDeliveriesCap > 0 && ts.meshMessageDeliveries > tp.MeshMessageDeliveriesCap {
				bad("over-cap", "meshMessageDeliveries of %s is %v > cap %v", p, ts.meshMessageDeliveries, tp.MeshMessageDeliveriesCap)
			}
			// penalty components only ever lower the score
			if ts.meshFailurePenalty*tp.MeshFailurePenaltyWeight > 0 || ts.invalidMessageDeliveries*ts.invalidMessageDeliveries*tp.InvalidMessageDeliveriesWeight > 0 {
				bad("penalty-raises-score", "a penalty component of %s on %s is positive", p, t)
			}
			// sampled mesh time lags the true one by less than a decay interval once a tick has sampled it
			if ts.inMesh && ts.meshTime > time.Since(ts.graftTime) {
				bad("mesh-time", "sampled mesh time %v of %s exceeds the true time in mesh %v", ts.meshTime, p, time.Since(ts.graftTime))
			}
			rt := rp.topics[t]
			if rt == nil {
				rt = &refTopic{}
			}
			if math.Abs(ts.firstMessageDeliveries-rt.first) > 1e-9 || math.Abs(ts.meshMessageDeliveries-rt.mesh) > 1e-9 || math.Abs(ts.meshFailurePenalty-rt.failure) > 1e-9 || math.Abs(ts.invalidMessageDeliveries-rt.invalid) > 1e-9 || ts.inMesh != rt.inMesh || ts.meshMessageDeliveriesActive != rt.active {
				bad("counter-mismatch", "%s on %s: impl {first %v mesh %v fail %v invalid %v inMesh %v active %v}, reference {%v %v %v %v %v %v}", p, t,
					ts.firstMessageDeliveries, ts.meshMessageDeliveries, ts.meshFailurePenalty, ts.invalidMessageDeliveries, ts.inMesh, ts.meshMessageDeliveriesActive,
					rt.first, rt.mesh, rt.failure, rt.invalid, rt.inMesh, rt.active)
			}
		}
	}
	nrec := len(in.ps.deliveries.records)
	in.ps.Unlock()
	if nrec != len(in.ref.records) {
		bad("delivery-records", "%d delivery records kept, reference %d", nrec, len(in.ref.records))
	}
	return strings.Join(obs, " ")
}

func (in *vfC10Inst) implStats(p string) string {
	in.ps.Lock()
	defer in.ps.Unlock()
	st, ok := in.ps.peerStats[vfIdentity(p).id]
	if !ok {
		return "none"
	}
	var l []string
	for t, ts := range st.topics {
		l = append(l, fmt.Sprintf("%s{mesh=%v mt=%v first=%v md=%v act=%v fail=%v inv=%v}", t, ts.inMesh, ts.meshTime, ts.firstMessageDeliveries, ts.meshMessageDeliveries, ts.meshMessageDeliveriesActive, ts.meshFailurePenalty, ts.invalidMessageDeliveries))
	}
	sort.Strings(l)
	return fmt.Sprintf("conn=%v bp=%v ips=%v %v", st.connected, st.behaviourPenalty, st.ips, l)
}

func (in *vfC10Inst) refStats(p string) string {
	rp, ok := in.ref.peers[p]
	if !ok {
		return "none"
	}
	var l []string
	for t, ts := range rp.topics {
		l = append(l, fmt.Sprintf("%s{mesh=%v mt=%v first=%v md=%v act=%v fail=%v inv=%v}", t, ts.inMesh, ts.meshTime, ts.first, ts.mesh, ts.active, ts.failure, ts.invalid))
	}
	sort.Strings(l)
	return fmt.Sprintf("conn=%v bp=%v ips=%v %v", rp.connected, rp.penalty, rp.ips, l)
}

func (in *vfC10Inst) Canon() string {
	if !in.valid {
		return "invalid-params"
	}
	now := time.Now()
	return fmt.Sprintf("%s|app=%v ip=%v conn=%v,%v phase=%d", vfDump(in.ps, now, nil), in.app, in.ipcfg,
		in.w.connected(in.h.ident.id, vfIdentity("p").id), in.w.connected(in.h.ident.id, vfIdentity("q").id), now.Sub(in.t0)%time.Second/time.Millisecond)
}

func (in *vfC10Inst) Finish(bool) string { return "" }

// ---- part 2: a real node with every accepted parameter set

type vfC10NodeCase struct {
	Part   string `json:"part"`
	Params string `json:"params"`
}

func vfC10NodeRun(r *vfRun, pname string) {
	c := vfC10NodeCase{Part: "node", Params: pname}
	p := vfBubble(r.t, func() {
		w := newVfWorld()
		params := vfC10Params(pname, func(peer.ID) float64 { return 0 })
		if pname == "peer-skip-nodecay" {
			params = &PeerScoreParams{SkipAtomicValidation: true, Topics: map[string]*TopicScoreParams{}}
		}
		n, err := vfNewNode(w, "N", "gossip", WithMessageSignaturePolicy(StrictNoSign), WithGossipSubParams(vfGSParams("d2")), WithPeerScore(params, &PeerScoreThresholds{SkipAtomicValidation: true}))
		if err != nil {
			r.count("param_sets_rejected_by_validation", 1)
			return
		}
		r.count("param_sets_accepted", 1)
		f := newVfFake(w, "a", GossipSubID_v11)
		w.connect(f.ident.id, n.id(), "10.0.0.1", "10.0.0.2")
		synctest.Wait()
		f.openInbound(n.h, GossipSubID_v11)
		f.send(vfSubRPC("t", true))
		sub, _ := n.ps.Subscribe("t")
		_ = sub
		synctest.Wait()
		f.send(vfGraftRPC("t"))
		topic := "t"
		f.send(vfPubRPC(&pb.Message{From: []byte(f.ident.id), Seqno: []byte{0, 0, 0, 0, 0, 0, 0, 1}, Data: []byte("x"), Topic: &topic}))
		vfAdvance(3500 * time.Millisecond)
		var s float64
		n.eval(func() { s = n.gs.score.Score(f.ident.id) })
		if math.IsNaN(s) || math.IsInf(s, 0) {
			r.violation("c10:nan", fmt.Sprintf("[params %s] score of a mesh peer is %v", pname, s), c)
		}
		vfTeardown(w, n)
	})
	if p != "" {
		r.violation("c10:panic:"+vfPanicFingerprint(p), fmt.Sprintf("[params %s] panic: %s", pname, vfFirstLine(p)), c)
	}
}

// seeded start states ("start from non-initial states too"): event prefixes applied before the search starts
var vfC10Seeds = map[string][]string{
	"":          nil,
	"mesh":      {"conn:p", "conn:q", "graft:p:t", "adv:1000", "adv:100", "decay"},                      // p active in the mesh, q a colocated bystander
	"delivered": {"conn:p", "conn:q", "graft:p:t", "graft:q:t", "val:m1:p", "deliver:m1:p", "dup:m1:q"}, // deliveries recorded, both in the mesh
	"retained":  {"conn:p", "graft:p:t", "penalty:p:2", "penalty:p:2", "disc:p"},                        // p disconnected with a retained negative score
	// m1 has been in validation for longer than the delivery window (first seen 600 ms ago, not yet validated), both peers active in the mesh
	"validating": {"conn:p", "conn:q", "graft:p:t", "graft:q:t", "adv:1000", "adv:100", "decay", "val:m1:p", "adv:600"},
	// three delivery records queued for expiry, created at different times, all of them about to outlive the seen window
	// p has three mesh deliveries and three first deliveries on its counters (both at their caps or above the lowered ones)
	"counted": {"conn:p", "conn:q", "graft:p:t", "graft:q:t", "deliver:m1:p", "deliver:m2:p", "deliver:m3:p"},
	"records": {"conn:p", "conn:q", "graft:p:t", "graft:q:t", "deliver:m2:p", "adv:100", "deliver:m1:p", "adv:100", "deliver:mu:p", "adv:1000"},
}

func vfC10Cfg(r *vfRun, pname, seed string) *vfExploreCfg {
	depth := 4
	if r.thorough {
		depth = 5
	}
	if (pname == "full" || pname == "alt") && seed == "" {
		depth++
	}
	if seed != "" && !r.thorough {
		depth = 3
	}
	name := "params-" + pname
	if seed != "" {
		name += "@" + seed
	}
	return &vfExploreCfg{Scenario: map[string]any{"part": "seq", "params": pname, "seed": seed}, Name: name, MaxDepth: depth, Bubble: true,
		New: func(x *vfExec) vfInstance {
			in := vfC10New(x, pname)
			if in.valid {
				for _, ev := range vfC10Seeds[seed] {
					in.Apply(ev, false)
				}
				if seed == "counted" {
					in.extra = []string{"setparams:lowmesh", "setparams:lowfirst"}
				}
			}
			return in
		}}
}

func init() {
	vfRegister("C10", &vfCheck{
		run: func(r *vfRun) {
			names := vfC10ParamNames(r.thorough)
			r.res.Bounds["parameter_sets"] = len(names)
			for _, pn := range names {
				for _, seed := range []string{"", "mesh", "delivered", "retained", "validating", "records", "counted"} {
					if seed != "" && pn != "full" && pn != "alt" && pn != "skip:31" && pn != "peer-skip" {
						continue
					}
					if _, ok := r.nextCase(); ok {
						vfExplore(r, vfC10Cfg(r, pn, seed))
					}
				}
			}
			for _, pn := range append(vfC10ParamNames(true), "peer-skip-nodecay") {
				if _, ok := r.nextCase(); ok {
					r.mark(vfC10NodeCase{Part: "node", Params: pn})
					vfC10NodeRun(r, pn)
					r.unmark()
					r.res.Executions++
				}
			}
		},
		replay: func(r *vfRun, raw json.RawMessage) {
			var c struct {
				Part     string `json:"part"`
				Params   string `json:"params"`
				Scenario struct {
					Params string `json:"params"`
					Seed   string `json:"seed"`
				} `json:"scenario"`
			}
			json.Unmarshal(raw, &c)
			if c.Part == "node" {
				vfC10NodeRun(r, c.Params)
				r.res.Executions++
				return
			}
			vfReplayCase(r, vfC10Cfg(r, c.Scenario.Params, c.Scenario.Seed), raw)
		},
	})
}
