package pubsub

// A real PubSub node on a stub host, plus the helpers shared by the E-WORLD checks.

import (
	"context"
	"fmt"
	"sort"
	"strings"
	"testing/synctest"
	"time"
	"unsafe"

	pb "github.com/libp2p/go-libp2p-pubsub/pb"
	"github.com/libp2p/go-libp2p/core/peer"
	"github.com/libp2p/go-libp2p/core/protocol"
)

type vfNode struct {
	w      *vfWorld
	h      *vfHost
	ps     *PubSub
	gs     *GossipSubRouter
	ctx    context.Context
	cancel context.CancelFunc
	router string
	labels map[unsafe.Pointer]string
	t0     time.Time
}

// vfNewNode builds a real node. router is "flood", "random" or "gossip".
func vfNewNode(w *vfWorld, name, router string, opts ...Option) (*vfNode, error) {
	n := &vfNode{w: w, h: newVfHost(w, name), router: router, labels: map[unsafe.Pointer]string{}, t0: time.Now()}
	n.ctx, n.cancel = context.WithCancel(context.Background())
	base := []Option{WithValidateWorkers(1)}
	opts = append(base, opts...)
	var err error
	switch router {
	case "flood":
		n.ps, err = NewFloodSub(n.ctx, n.h, opts...)
	case "random":
		n.ps, err = NewRandomSub(n.ctx, n.h, 1, opts...)
	case "gossip":
		n.ps, err = NewGossipSub(n.ctx, n.h, opts...)
	default:
		err = fmt.Errorf("unknown router %q", router)
	}
	if err != nil {
		n.cancel()
		return nil, err
	}
	n.gs, _ = n.ps.rt.(*GossipSubRouter)
	return n, nil
}

func (n *vfNode) id() peer.ID { return n.h.ident.id }

// eval runs f inside the node's event loop (a consistent snapshot point).
// vfLoopStallAfter: how long (virtual time) the harness waits for the event loop to take a request before it calls
// the loop stalled. Nothing in the library parks the loop for longer than a write deadline (30 s); the harness itself
// never asks while it has parked the loop.
const vfLoopStallAfter = 30 * time.Minute

// eval runs f inside the node's event loop. A loop that does not take the request within vfLoopStallAfter of virtual
// time is stuck for good (blocked on something only the loop itself could release): the execution ends with a panic
// that names the condition, which the driver attributes to the history in flight like any other crash of the node.
func (n *vfNode) eval(f func()) bool {
	done := make(chan struct{})
	fn := func() {
		defer close(done)
		f()
	}
	t := time.NewTimer(vfLoopStallAfter)
	defer t.Stop()
	select {
	case n.ps.eval <- fn:
	case <-n.ps.ctx.Done():
		return false
	case <-t.C:
		panic(fmt.Sprintf("vf: the node's event loop is stalled: it has not taken a request for %v of virtual time\n%s", vfLoopStallAfter, vfLoopStack()))
	}
	select {
	case <-done:
	case <-n.ps.ctx.Done():
		return false
	}
	return true
}

// vfLoopStack returns the stack of the event loop goroutine (for the stall report).
func vfLoopStack() string {
	for _, g := range vfBubbleGoroutines() {
		if strings.Contains(g, "(*PubSub).processLoop") {
			return g
		}
	}
	return "(event loop goroutine not found)"
}

func (n *vfNode) label(p unsafe.Pointer, name string) { n.labels[p] = name }

func (n *vfNode) ptrName(p unsafe.Pointer) string { return n.labels[p] }

// canon dumps the node (PubSub + router + conn-manager protections) inside the loop.
func (n *vfNode) canon() string {
	var s string
	ok := n.eval(func() {
		now := time.Now()
		var sb strings.Builder
		sb.WriteString("PS:")
		sb.WriteString(vfDump(n.ps, now, n.ptrName))
		sb.WriteString("\nRT:")
		sb.WriteString(vfDump(n.ps.rt, now, n.ptrName))
		sb.WriteString("\nCM:")
		sb.WriteString(strings.Join(vfProtNames(n.h.cm.protections()), ","))
		if n.gs != nil {
			// ticker phase: what matters is where now sits inside the heartbeat period
			fmt.Fprintf(&sb, "\nPHASE:%d", int64(now.Sub(n.t0)%n.gs.params.HeartbeatInterval/time.Millisecond))
		}
		s = sb.String()
	})
	if !ok {
		return "<node stopped>"
	}
	return s
}

func vfProtNames(ps []string) []string {
	out := make([]string, 0, len(ps))
	for _, k := range ps {
		i := strings.IndexByte(k, '|')
		out = append(out, vfName(peer.ID(k[:i]))+k[i:])
	}
	sort.Strings(out)
	return out
}

// vfAdvance moves virtual time forward by d and waits for quiescence.
func vfAdvance(d time.Duration) {
	time.Sleep(d)
	synctest.Wait()
}

// shutdown is the epilogue of every execution: cancel the node, tear down all
// connections, advance past every sleeper, and report goroutines that remain.
func (n *vfNode) shutdown() {
	n.cancel()
	synctest.Wait()
}

// vfTeardown disconnects everything and advances a horizon so that every
// library goroutine that is going to exit has exited.
func vfTeardown(w *vfWorld, nodes ...*vfNode) {
	for _, n := range nodes {
		n.cancel()
	}
	synctest.Wait()
	w.mu.Lock()
	var pairs [][2]peer.ID
	for k := range w.conns {
		if k[0] < k[1] {
			pairs = append(pairs, k)
		}
	}
	for k, ch := range w.release {
		close(ch)
		delete(w.release, k)
	}
	for k := range w.policy {
		w.policy[k] = vfStreamFail
	}
	w.mu.Unlock()
	sort.Slice(pairs, func(i, j int) bool { return pairs[i][0]+pairs[i][1] < pairs[j][0]+pairs[j][1] })
	for _, k := range pairs {
		w.disconnect(k[0], k[1])
	}
	synctest.Wait()
	vfAdvance(45 * time.Second)
}

// vfLeftovers returns the library goroutines still alive in the bubble
// (everything except the bubble root, which is the caller).
func vfLeftovers() []string {
	var out []string
	for _, g := range vfBubbleGoroutines() {
		if strings.Contains(g, "vfLeftovers") || strings.Contains(g, "internal/synctest.Run(") || strings.Contains(g, "synctest.testingSynctestTest(") {
			continue // the caller itself and the bubble's own plumbing
		}
		out = append(out, g)
	}
	return out
}

// ---------------------------------------------------------------- RPC construction / rendering

func vfSubRPC(topic string, sub bool) *RPC {
	return &RPC{RPC: pb.RPC{Subscriptions: []*pb.RPC_SubOpts{{Topicid: &topic, Subscribe: &sub}}}}
}

func vfCtlRPC(ctl *pb.ControlMessage) *RPC { return &RPC{RPC: pb.RPC{Control: ctl}} }

func vfGraftRPC(topics ...string) *RPC {
	ctl := &pb.ControlMessage{}
	for _, t := range topics {
		t := t
		ctl.Graft = append(ctl.Graft, &pb.ControlGraft{TopicID: &t})
	}
	return vfCtlRPC(ctl)
}

func vfPruneRPC(topic string, backoff uint64, px ...*pb.PeerInfo) *RPC {
	pr := &pb.ControlPrune{TopicID: &topic, Peers: px}
	if backoff > 0 {
		pr.Backoff = &backoff
	}
	return vfCtlRPC(&pb.ControlMessage{Prune: []*pb.ControlPrune{pr}})
}

// vfMsg builds an unsigned message (for StrictNoSign / LaxNoSign scenarios).
func vfMsg(topic string, from peer.ID, seqno uint64, data []byte) *pb.Message {
	m := &pb.Message{Data: data, Topic: &topic}
	if from != "" {
		m.From = []byte(from)
		m.Seqno = make([]byte, 8)
		for i := 0; i < 8; i++ {
			m.Seqno[7-i] = byte(seqno >> (8 * i))
		}
	}
	return m
}

func vfPubRPC(msgs ...*pb.Message) *RPC { return &RPC{RPC: pb.RPC{Publish: msgs}} }

// vfRenderRPC renders an RPC canonically (order inside one RPC is not
// significant for control lists, so those are sorted).
func vfRenderRPC(r *RPC, mid func(*pb.Message) string) string {
	if r == nil {
		return "<undecodable>"
	}
	var parts []string
	var subs []string
	for _, s := range r.GetSubscriptions() {
		x := "-"
		if s.GetSubscribe() {
			x = "+"
		}
		if s.GetRequestsPartial() {
			x += "rp"
		}
		if s.GetSupportsSendingPartial() {
			x += "sp"
		}
		subs = append(subs, x+s.GetTopicid())
	}
	sort.Strings(subs)
	if len(subs) > 0 {
		parts = append(parts, "SUB["+strings.Join(subs, ",")+"]")
	}
	// the payload order inside one RPC is rendered canonically: an IWANT reply lists its messages in map
	// iteration order (what split() does to the order is C11's business, on its own inputs)
	var pubs []string
	for _, m := range r.GetPublish() {
		id := ""
		if mid != nil {
			id = mid(m)
		} else {
			id = fmt.Sprintf("%s/%x", vfName(peer.ID(m.GetFrom())), m.GetSeqno())
		}
		pubs = append(pubs, fmt.Sprintf("MSG[%s:%s]", m.GetTopic(), id))
	}
	sort.Strings(pubs)
	parts = append(parts, pubs...)
	if c := r.GetControl(); c != nil {
		var g, p, ih, iw, dw []string
		for _, x := range c.GetGraft() {
			g = append(g, x.GetTopicID())
		}
		for _, x := range c.GetPrune() {
			s := x.GetTopicID()
			if x.Backoff != nil {
				s += fmt.Sprintf("/b%d", x.GetBackoff())
			}
			if len(x.GetPeers()) > 0 {
				var px []string
				for _, pi := range x.GetPeers() {
					px = append(px, vfName(peer.ID(pi.GetPeerID())))
				}
				sort.Strings(px)
				s += "/px(" + strings.Join(px, "+") + ")"
			}
			p = append(p, s)
		}
		for _, x := range c.GetIhave() {
			ids := append([]string{}, x.GetMessageIDs()...)
			sort.Strings(ids)
			ih = append(ih, x.GetTopicID()+":"+vfIDs(ids))
		}
		for _, x := range c.GetIwant() {
			ids := append([]string{}, x.GetMessageIDs()...)
			sort.Strings(ids)
			iw = append(iw, vfIDs(ids))
		}
		for _, x := range c.GetIdontwant() {
			ids := append([]string{}, x.GetMessageIDs()...)
			sort.Strings(ids)
			dw = append(dw, vfIDs(ids))
		}
		for _, l := range [][]string{g, p, ih, iw, dw} {
			sort.Strings(l)
		}
		if len(g) > 0 {
			parts = append(parts, "GRAFT["+strings.Join(g, ",")+"]")
		}
		if len(p) > 0 {
			parts = append(parts, "PRUNE["+strings.Join(p, ",")+"]")
		}
		if len(ih) > 0 {
			parts = append(parts, "IHAVE["+strings.Join(ih, ";")+"]")
		}
		if len(iw) > 0 {
			parts = append(parts, "IWANT["+strings.Join(iw, ";")+"]")
		}
		if len(dw) > 0 {
			parts = append(parts, "IDONTWANT["+strings.Join(dw, ";")+"]")
		}
		if c.Extensions != nil {
			parts = append(parts, fmt.Sprintf("EXT[te=%v pm=%v]", c.Extensions.GetTestExtension(), c.Extensions.GetPartialMessages()))
		}
	}
	if r.TestExtension != nil {
		parts = append(parts, "TESTEXT")
	}
	if r.Partial != nil {
		parts = append(parts, "PARTIAL")
	}
	if len(parts) == 0 {
		return "EMPTY"
	}
	return strings.Join(parts, " ")
}

func vfIDs(ids []string) string {
	out := make([]string, len(ids))
	for i, id := range ids {
		out[i] = vfIDName(id)
	}
	return strings.Join(out, ",")
}

// vfIDName renders a default message ID (from ++ seqno) readably.
func vfIDName(id string) string {
	if len(id) > 8 {
		from, seq := id[:len(id)-8], id[len(id)-8:]
		if n := vfName(peer.ID(from)); !strings.HasPrefix(n, "?") {
			return fmt.Sprintf("%s/%x", n, strings.TrimLeft(seq, "\x00"))
		}
	}
	printable := true
	for _, c := range id {
		if c < 32 || c > 126 {
			printable = false
		}
	}
	if printable {
		return id
	}
	return fmt.Sprintf("%x", id)
}

// Protocol shorthands.
var vfProtoByName = map[string]protocol.ID{
	"fs":  FloodSubID,
	"rs":  RandomSubID,
	"v10": GossipSubID_v10,
	"v11": GossipSubID_v11,
	"v12": GossipSubID_v12,
	"v13": GossipSubID_v13,
	// a custom protocol ID with every feature, configured through WithGossipSubProtocols (see newVfGW)
	"acme": vfAcmeProto,
}

const vfAcmeProto = protocol.ID("/acme/meshsub/1.3.0")

