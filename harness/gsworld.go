package pubsub

// vfGW: one real node (any router) surrounded by scripted fake peers, with a
// generic event vocabulary, a per-step wire log and in-loop snapshots.  The
// routing checks (C06 C07 C08 C09 C16 C17 C19 ...) are alphabets + oracles on
// top of this world.
//
// Event grammar (one string per event, replayable):
//   conn:X disc:X            connect (incl. X's stream to the node) / disconnect
//   sub:X:T unsub:X:T        X announces / withdraws interest in topic T
//   graft:X:T prune:X:T[:S]  control from X (S = backoff seconds)
//   pub:X:M                  X forwards message M (see msgs table) to the node
//   ihave:X:T:M iwant:X:M idw:X:M
//   join:T leave:T           node subscribes / cancels its subscription
//   relay:T unrelay:T
//   lpub:T:M                 node publishes M locally
//   hb                       advance virtual time to just after the next heartbeat
//   adv:MS                   advance virtual time by MS milliseconds
//   score:X:V                application-specific score of X becomes V
//   gate:X ungate:X          block / unblock the node's writes to X
//   bl:X                     BlacklistPeer(X)
// Any event may carry choice overrides ("hb!2=0").

import (
	"context"
	"encoding/hex"
	"fmt"
	"io"
	"log/slog"
	"sort"
	"strconv"
	"strings"
	"sync"
	"testing/synctest"
	"time"

	pb "github.com/libp2p/go-libp2p-pubsub/pb"
	"github.com/libp2p/go-libp2p-pubsub/timecache"
	"github.com/libp2p/go-libp2p/core/network"
	"github.com/libp2p/go-libp2p/core/peer"
	"github.com/libp2p/go-libp2p/core/protocol"
	"github.com/libp2p/go-libp2p/core/record"
)

type vfPeerCfg struct {
	Name     string `json:"name"`
	Proto    string `json:"proto"`              // key of vfProtoByName
	Outbound bool   `json:"outbound,omitempty"` // the node dialled this peer
	IP       string `json:"ip,omitempty"`
	Direct   bool   `json:"direct,omitempty"`
}

type vfGWCfg struct {
	Router      string            `json:"router"`
	Peers       []vfPeerCfg       `json:"peers"`
	Topics      []string          `json:"topics"`
	Params      string            `json:"params,omitempty"` // named parameter set
	Scoring     bool              `json:"scoring,omitempty"`
	FloodPub    bool              `json:"floodpub,omitempty"`
	PX          bool              `json:"px,omitempty"`
	QueueSize   int               `json:"queue,omitempty"`
	Tracer      bool              `json:"tracer,omitempty"`
	Prefix      []string          `json:"prefix,omitempty"` // events applied while building the initial state
	Extra       map[string]string `json:"extra,omitempty"`
	MaxMsgSize  int               `json:"maxmsg,omitempty"`
	SeenTTL     int               `json:"seenttl_s,omitempty"`
	Gater       bool              `json:"gater,omitempty"`
	IDWThresh   int               `json:"idw_threshold,omitempty"`
	Thresholds  string            `json:"thresholds,omitempty"`
	ScoreTopics bool              `json:"score_topics,omitempty"`
	Validators  []vfValCfg        `json:"validators,omitempty"`
	Workers     int               `json:"workers,omitempty"`
	ValQueue    int               `json:"valqueue,omitempty"`
	ValThrottle int               `json:"valthrottle,omitempty"`
	BlacklistTC bool              `json:"blacklist_timecached,omitempty"`
	Strategy    string            `json:"seen_strategy,omitempty"`
	IDFn        string            `json:"idfn,omitempty"`     // "" default, "content": hash of data (default fn), "topic-content": per-topic fn
	DecayMs     int               `json:"decay_ms,omitempty"` // score decay interval (default: one hour, i.e. scores under harness control)
	TestExt     bool              `json:"testext,omitempty"`
	ScoreSeenS  int               `json:"score_seen_s,omitempty"`
}

type vfValCfg struct {
	Name      string            `json:"name"`
	Topic     string            `json:"topic,omitempty"` // "" = default validator
	Inline    bool              `json:"inline,omitempty"`
	Gated     bool              `json:"gated,omitempty"`
	Verdict   string            `json:"verdict,omitempty"` // A R I U(nknown value)
	PerMsg    map[string]string `json:"permsg,omitempty"`
	TimeoutMs int               `json:"timeout_ms,omitempty"`
	Throttle  int               `json:"throttle,omitempty"`
	GateOnly  []string          `json:"gate_only,omitempty"` // park only these message labels (default: all)
}

type vfValInv struct {
	val, msg string
	gate     chan ValidationResult
	timedOut bool
	from     string
}

func vfVerdict(s string) ValidationResult {
	switch s {
	case "R":
		return ValidationReject
	case "I":
		return ValidationIgnore
	case "U":
		return ValidationResult(99)
	case "N":
		return ValidationResult(-1) // out of range too; happens to be the library's internal "throttled" value
	case "Z":
		return ValidationResult(3) // the first value above the defined ones
	}
	return ValidationAccept
}

// named gossipsub parameter sets (all accepted by validate())
func vfGSParams(name string) GossipSubParams {
	p := DefaultGossipSubParams()
	p.HeartbeatInitialDelay = time.Second
	p.HeartbeatInterval = time.Second
	p.Connectors = 1
	p.MaxPendingConnections = 8
	p.DirectConnectTicks = 1000
	p.DirectConnectInitialDelay = time.Second
	p.PruneBackoff = 4 * time.Second
	p.UnsubscribeBackoff = 2 * time.Second
	p.GraftFloodThreshold = time.Second
	p.FanoutTTL = 3 * time.Second
	p.HistoryLength = 3
	p.HistoryGossip = 2
	p.GossipRetransmission = 2
	p.MaxIHaveLength = 2
	p.MaxIHaveMessages = 2
	p.MaxIDontWantMessages = 2
	p.MaxIDontWantLength = 2
	p.IDontWantMessageTTL = 2
	p.IDontWantMessageThreshold = 16
	p.IWantFollowupTime = 3 * time.Second
	p.OpportunisticGraftTicks = 1000
	p.OpportunisticGraftPeers = 1
	p.Dlazy = 6
	p.GossipFactor = 0.25
	p.SlowHeartbeatWarning = 0
	switch name {
	case "", "d2":
		p.D, p.Dlo, p.Dhi, p.Dscore, p.Dout = 2, 1, 3, 1, 0
	case "d2tight":
		p.D, p.Dlo, p.Dhi, p.Dscore, p.Dout = 2, 2, 3, 2, 0
	case "d4":
		p.D, p.Dlo, p.Dhi, p.Dscore, p.Dout = 4, 2, 4, 1, 1
	case "d4score":
		p.D, p.Dlo, p.Dhi, p.Dscore, p.Dout = 4, 2, 5, 4, 1
	case "d3":
		p.D, p.Dlo, p.Dhi, p.Dscore, p.Dout = 3, 2, 4, 2, 0
	case "zero":
		p.D, p.Dlo, p.Dhi, p.Dscore, p.Dout = 0, 0, 0, 0, 0
	case "d2og":
		p.D, p.Dlo, p.Dhi, p.Dscore, p.Dout = 2, 1, 3, 1, 0
		p.OpportunisticGraftTicks = 1
	case "d5out2":
		// an outbound quota of two: the cut from Dhi to D has to repair a selection that holds one outbound member
		p.D, p.Dlo, p.Dhi, p.Dscore, p.Dout = 6, 3, 7, 1, 2
	case "d2hg":
		// the history LENGTH left at the package default, only the gossip window changed (to one heartbeat)
		p.D, p.Dlo, p.Dhi, p.Dscore, p.Dout = 2, 1, 3, 1, 0
		p.HistoryLength, p.HistoryGossip = DefaultGossipSubParams().HistoryLength, 1
	case "d2ih":
		// a per-heartbeat IWANT budget that takes several honoured IHAVEs to use up
		p.D, p.Dlo, p.Dhi, p.Dscore, p.Dout = 2, 1, 3, 1, 0
		p.MaxIHaveLength = 3
		p.MaxIHaveMessages = 5
	case "d4og":
		// over-subscription cut and opportunistic grafting in the same heartbeat, Dscore well below D
		p.D, p.Dlo, p.Dhi, p.Dscore, p.Dout = 4, 2, 5, 1, 0
		p.OpportunisticGraftTicks = 1
		p.OpportunisticGraftPeers = 2
	case "d2og0":
		// opportunistic grafting "disabled" by a zero period: accepted by validate()
		p.D, p.Dlo, p.Dhi, p.Dscore, p.Dout = 2, 1, 3, 1, 0
		p.OpportunisticGraftTicks = 0
	case "d2dc0":
		p.D, p.Dlo, p.Dhi, p.Dscore, p.Dout = 2, 1, 3, 1, 0
		p.DirectConnectTicks = 0
	case "default":
		p = DefaultGossipSubParams()
		p.Connectors = 1
	default:
		panic("unknown param set " + name)
	}
	return p
}

func vfThresholds(name string) *PeerScoreThresholds {
	switch name {
	case "", "std":
		return &PeerScoreThresholds{GossipThreshold: -1, PublishThreshold: -2, GraylistThreshold: -4, AcceptPXThreshold: 2, OpportunisticGraftThreshold: 1}
	case "zero":
		return &PeerScoreThresholds{SkipAtomicValidation: true}
	}
	panic("unknown thresholds " + name)
}

type vfMsgSpec struct {
	Topic  string
	Author string // peer label or "x" (unknown third party) or "N" (the node itself)
	Seq    uint64
	Size   int
	SeqHex string `json:",omitempty"` // raw seqno bytes (hex) overriding Seq; "-" = no seqno field
	Data   string `json:",omitempty"` // payload override (default: the label)
}

type vfDelivery struct {
	sub string
	id  string
	raw string // raw message ID
}

type vfGW struct {
	unorderedStep bool // the frames of this step are rendered in sorted order (see wireLog)
	x             *vfExec
	cfg           *vfGWCfg
	w             *vfWorld
	n             *vfNode
	fakes         map[string]*vfFake
	order         []string // peer labels in config order
	pcfg          map[string]vfPeerCfg
	conn          map[string]bool
	gated         map[string]bool
	appMu         sync.Mutex
	app           map[peer.ID]float64
	topics        map[string]*Topic
	subs          map[string][]*Subscription // live subscriptions per topic
	relays        map[string][]RelayCancelFunc
	nsubs         int
	msgs          map[string]vfMsgSpec
	trace         *vfMemTracer
	t0            time.Time
	wire          map[string][]vfRecv // frames received by each fake during the current step
	deliv         []vfDelivery        // deliveries during the current step
	lastPts       []vfChoicePoint
	lpubErr       map[string]string
	localID       map[string]string // message ID of a locally published message -> its label
	lmu           sync.Mutex
	vmu           sync.Mutex
	valCalls      map[string]int // "validator|message" -> invocations
	valPend       []*vfValInv
	valLog        []string
	held          map[string]bool // NewStream to this peer is blocked
	meta          *vfMetaStore
	ymu           sync.Mutex
	yArmed        map[string]bool          // "point|peer": the next goroutine arriving there is held
	yParked       map[string]chan struct{} // goroutines currently held
	yCount        map[string]int           // parks per point (coverage)
	cancelled     []*Subscription
	closeErr      map[string]string
}

type vfMemTracer struct {
	mu  sync.Mutex
	evs []*pb.TraceEvent
}

func (t *vfMemTracer) Trace(e *pb.TraceEvent) {
	t.mu.Lock()
	t.evs = append(t.evs, e)
	t.mu.Unlock()
}
func (t *vfMemTracer) take() []*pb.TraceEvent {
	t.mu.Lock()
	defer t.mu.Unlock()
	e := t.evs
	t.evs = nil
	return e
}

func vfDefaultMsgs(topics []string) map[string]vfMsgSpec {
	return map[string]vfMsgSpec{}
}

func newVfGW(x *vfExec, cfg *vfGWCfg, msgs map[string]vfMsgSpec, extra ...Option) *vfGW {
	vfCh.newExecution()
	g := &vfGW{x: x, cfg: cfg, w: newVfWorld(), fakes: map[string]*vfFake{}, pcfg: map[string]vfPeerCfg{}, conn: map[string]bool{},
		gated: map[string]bool{}, app: map[peer.ID]float64{}, topics: map[string]*Topic{}, subs: map[string][]*Subscription{},
		relays: map[string][]RelayCancelFunc{}, msgs: msgs, t0: time.Now(), wire: map[string][]vfRecv{}, lpubErr: map[string]string{}, localID: map[string]string{}, valCalls: map[string]int{}, held: map[string]bool{}}
	opts := []Option{WithMessageSignaturePolicy(StrictNoSign)}
	if cfg.Extra["sign"] != "" {
		// the default strict-signing policy; the scripted peers' messages are honestly signed (see pbMsg)
		opts = []Option{WithMessageSignaturePolicy(StrictSign)}
	}
	if cfg.QueueSize > 0 {
		opts = append(opts, WithPeerOutboundQueueSize(cfg.QueueSize))
	}
	for _, pc := range cfg.Peers {
		if pc.Proto == "acme" && cfg.Router == "gossip" {
			// a custom protocol list: the custom ID first, then the defaults; the custom ID has every feature
			opts = append(opts, WithGossipSubProtocols(append([]protocol.ID{vfAcmeProto}, GossipSubDefaultProtocols...),
				func(f GossipSubFeature, p protocol.ID) bool {
					if p == vfAcmeProto {
						return true
					}
					return GossipSubDefaultFeatures(f, p)
				}))
			break
		}
	}
	if cfg.Extra["subfilter"] == "limit2" {
		// the scenario's own topics are allowed; an RPC may carry up to two subscription entries
		opts = append(opts, WithSubscriptionFilter(WrapLimitSubscriptionFilter(NewAllowlistSubscriptionFilter(cfg.Topics...), 2)))
	}
	if cfg.MaxMsgSize > 0 {
		opts = append(opts, WithMaxMessageSize(cfg.MaxMsgSize))
	}
	if cfg.SeenTTL > 0 {
		opts = append(opts, WithSeenMessagesTTL(time.Duration(cfg.SeenTTL)*time.Second))
	}
	if cfg.Workers > 0 {
		opts = append(opts, WithValidateWorkers(cfg.Workers))
	}
	if cfg.ValQueue > 0 {
		opts = append(opts, WithValidateQueueSize(cfg.ValQueue))
	}
	if cfg.ValThrottle > 0 {
		opts = append(opts, WithValidateThrottle(cfg.ValThrottle))
	}
	if cfg.BlacklistTC {
		bl, _ := NewTimeCachedBlacklist(time.Hour)
		opts = append(opts, WithBlacklist(bl))
	}
	if cfg.Strategy == "last" {
		opts = append(opts, WithSeenMessagesStrategy(timecache.Strategy_LastSeen))
	}
	if cfg.IDFn == "content" {
		opts = append(opts, WithMessageIdFn(vfContentID))
	}
	if cfg.IDFn == "topic-content" {
		// every topic of the scenario gets the content hash as its own ID function (see topic()); the node-wide
		// function must then never be consulted for a message of those topics, and it shows if it is: it answers with
		// a fresh ID on every call, so nothing it names is ever recognised again
		calls := 0
		opts = append(opts, WithMessageIdFn(func(*pb.Message) string {
			calls++
			return fmt.Sprintf("node-wide-id-fn-call-%d", calls)
		}))
	}
	if cfg.Extra["seqno_validator"] != "" {
		g.meta = &vfMetaStore{m: map[peer.ID][]byte{}}
		var vo []ValidatorOpt
		if cfg.Extra["seqno_validator"] == "inline" {
			vo = append(vo, WithValidatorInline(true))
		}
		opts = append(opts, WithDefaultValidator(NewBasicSeqnoValidator(g.meta, slog.New(slog.NewTextHandler(io.Discard, nil))), vo...))
	}
	for _, vc := range cfg.Validators {
		if vc.Topic == "" {
			opts = append(opts, WithDefaultValidator(g.validatorFn(vc), vfValOpts(vc)...))
		}
	}
	if cfg.Tracer {
		g.trace = &vfMemTracer{}
		opts = append(opts, WithEventTracer(g.trace))
	}
	if cfg.Router == "gossip" {
		params := vfGSParams(cfg.Params)
		if cfg.IDWThresh > 0 {
			params.IDontWantMessageThreshold = cfg.IDWThresh
		}
		opts = append(opts, WithGossipSubParams(params), WithFloodPublish(cfg.FloodPub), WithPeerExchange(cfg.PX))
		if cfg.Scoring {
			sp := &PeerScoreParams{
				AppSpecificScore: func(p peer.ID) float64 {
					g.appMu.Lock()
					defer g.appMu.Unlock()
					return g.app[p]
				},
				AppSpecificWeight:      1,
				DecayInterval:          vfDecay(cfg.DecayMs), // default one hour: scores stay under harness control
				SeenMsgTTL:             time.Duration(cfg.ScoreSeenS) * time.Second,
				DecayToZero:            0.01,
				RetainScore:            10 * time.Second,
				BehaviourPenaltyWeight: -1, BehaviourPenaltyThreshold: 0, BehaviourPenaltyDecay: 0.9,
				Topics: map[string]*TopicScoreParams{},
			}
			if cfg.ScoreTopics {
				for _, t := range cfg.Topics {
					sp.Topics[t] = &TopicScoreParams{TopicWeight: 1, TimeInMeshQuantum: time.Second,
						InvalidMessageDeliveriesWeight: -1, InvalidMessageDeliveriesDecay: 0.9}
				}
			}
			opts = append(opts, WithPeerScore(sp, vfThresholds(cfg.Thresholds)))
		}
		if cfg.Gater {
			gp := NewPeerGaterParams(0.33, 0.9, 0.9)
			gp.DecayInterval = time.Second
			gp.RetainStats = 5 * time.Second
			gp.Quiet = 10 * time.Second
			opts = append(opts, WithPeerGater(gp))
		}
		if cfg.TestExt {
			opts = append(opts, WithTestExtension(TestExtensionConfig{}))
		}
		var direct []peer.AddrInfo
		for _, pc := range cfg.Peers {
			if pc.Direct {
				direct = append(direct, peer.AddrInfo{ID: vfIdentity(pc.Name).id})
			}
		}
		if len(direct) > 0 {
			opts = append(opts, WithDirectPeers(direct))
		}
	}
	opts = append(opts, extra...)
	g.yArmed, g.yParked = map[string]bool{}, map[string]chan struct{}{}
	g.yCount = map[string]int{}
	verifHooks.yield = g.onYield
	n, err := vfNewNode(g.w, "N", cfg.Router, opts...)
	if err != nil {
		panic(err)
	}
	g.n = n
	for _, pc := range cfg.Peers {
		g.order = append(g.order, pc.Name)
		g.pcfg[pc.Name] = pc
		g.fakes[pc.Name] = newVfFake(g.w, pc.Name, vfProtoByName[pc.Proto])
	}
	for _, vc := range cfg.Validators {
		if vc.Topic != "" {
			if err := n.ps.RegisterTopicValidator(vc.Topic, g.validatorFn(vc), vfValOpts(vc)...); err != nil {
				panic(err)
			}
		}
	}
	synctest.Wait()
	for _, ev := range cfg.Prefix {
		g.apply(ev)
	}
	g.clearStep()
	return g
}

func vfDecay(ms int) time.Duration {
	if ms <= 0 {
		return time.Hour
	}
	return time.Duration(ms) * time.Millisecond
}

// vfMetaStore is the application's PeerMetadataStore for the sequence-number validator.
type vfMetaStore struct {
	mu     sync.Mutex
	m      map[peer.ID][]byte
	puts   []string // "author=value" in commit order
	hold   bool     // a slow store: reads park until released (events mhold / mrel)
	parked []chan struct{}
}

func (s *vfMetaStore) Get(ctx context.Context, p peer.ID) ([]byte, error) {
	s.mu.Lock()
	if s.hold {
		ch := make(chan struct{})
		s.parked = append(s.parked, ch)
		s.mu.Unlock()
		select {
		case <-ch:
		case <-ctx.Done():
			return nil, ctx.Err()
		}
		s.mu.Lock()
	}
	defer s.mu.Unlock()
	return s.m[p], nil
}

func (s *vfMetaStore) state() string {
	s.mu.Lock()
	defer s.mu.Unlock()
	return fmt.Sprintf("hold=%v parked=%d", s.hold, len(s.parked))
}

func (s *vfMetaStore) Put(ctx context.Context, p peer.ID, v []byte) error {
	s.mu.Lock()
	defer s.mu.Unlock()
	s.m[p] = append([]byte{}, v...)
	s.puts = append(s.puts, fmt.Sprintf("%s=%x", vfName(p), v))
	return nil
}

func vfContentID(m *pb.Message) string { return "cid:" + string(m.GetData()) }

func vfValOpts(vc vfValCfg) []ValidatorOpt {
	var o []ValidatorOpt
	if vc.Inline {
		o = append(o, WithValidatorInline(true))
	}
	if vc.TimeoutMs > 0 {
		o = append(o, WithValidatorTimeout(time.Duration(vc.TimeoutMs)*time.Millisecond))
	}
	if vc.Throttle > 0 {
		o = append(o, WithValidatorConcurrency(vc.Throttle))
	}
	return o
}

// validatorFn builds a user validator bound to the harness: it counts
// invocations per message and, when gated, parks until the explorer releases it.
func (g *vfGW) validatorFn(vc vfValCfg) ValidatorEx {
	return func(ctx context.Context, from peer.ID, msg *Message) ValidationResult {
		label := g.msgLabel(msg.Message)
		g.vmu.Lock()
		g.valCalls[vc.Name+"|"+label]++
		g.valLog = append(g.valLog, vc.Name+"("+label+")")
		verdict := vc.Verdict
		if v, ok := vc.PerMsg[label]; ok {
			verdict = v
		}
		gated := vc.Gated
		if from == g.n.id() && g.cfg.Extra["park_local"] == "" {
			gated = false // a local publication validates synchronously in the caller: only park it when the caller is not the explorer
		}
		if gated && len(vc.GateOnly) > 0 {
			gated = false
			for _, l := range vc.GateOnly {
				if l == label {
					gated = true
				}
			}
		}
		if !gated {
			g.vmu.Unlock()
			return vfVerdict(verdict)
		}
		inv := &vfValInv{val: vc.Name, msg: label, gate: make(chan ValidationResult, 1), from: vfName(from)}
		g.valPend = append(g.valPend, inv)
		g.vmu.Unlock()
		if g.cfg.Extra["validators_ignore_ctx"] != "" {
			// a validator that does not watch its context (legal, if impolite): only the explorer ends it
			return <-inv.gate
		}
		select {
		case r := <-inv.gate:
			return r
		case <-ctx.Done():
			g.vmu.Lock()
			inv.timedOut = true
			g.vmu.Unlock()
			return ValidationIgnore
		}
	}
}

// pendingVals lists the parked validator invocations ("V|M"), sorted.
func (g *vfGW) pendingVals() []string {
	g.vmu.Lock()
	defer g.vmu.Unlock()
	var out []string
	var keep []*vfValInv
	for _, inv := range g.valPend {
		if inv.timedOut || inv.gate == nil {
			continue
		}
		keep = append(keep, inv)
		out = append(out, inv.val+"|"+inv.msg)
	}
	g.valPend = keep
	sort.Strings(out)
	return out
}

func (g *vfGW) release(val, msg string, r ValidationResult) bool {
	g.vmu.Lock()
	defer g.vmu.Unlock()
	for _, inv := range g.valPend {
		if inv.val == val && inv.msg == msg && !inv.timedOut && inv.gate != nil {
			inv.gate <- r
			inv.gate = nil
			return true
		}
	}
	return false
}

// onYield is the verifYield hook: a stream goroutine of the node passes a named
// point between two hand-offs to the event loop; if the explorer armed a hold
// for (point, peer) the goroutine parks here until released.
func (g *vfGW) onYield(point string, p peer.ID) {
	key := point + "|" + vfName(p)
	g.ymu.Lock()
	if !g.yArmed[key] {
		g.ymu.Unlock()
		return
	}
	delete(g.yArmed, key)
	ch := make(chan struct{})
	g.yParked[key] = ch
	g.yCount[point]++
	g.ymu.Unlock()
	<-ch
}

func (g *vfGW) releaseYield(key string) {
	g.ymu.Lock()
	if ch, ok := g.yParked[key]; ok {
		close(ch)
		delete(g.yParked, key)
	}
	g.ymu.Unlock()
}

func (g *vfGW) yieldState() (armed, parked []string) {
	g.ymu.Lock()
	defer g.ymu.Unlock()
	for k := range g.yArmed {
		armed = append(armed, k)
	}
	for k := range g.yParked {
		parked = append(parked, k)
	}
	sort.Strings(armed)
	sort.Strings(parked)
	return
}

func (g *vfGW) now() time.Duration { return time.Since(g.t0) }

func (g *vfGW) fake(name string) *vfFake {
	f := g.fakes[name]
	if f == nil {
		panic("unknown peer " + name)
	}
	return f
}

func (g *vfGW) pid(name string) peer.ID {
	if name == "N" {
		return g.n.id()
	}
	return vfIdentity(name).id
}

func (g *vfGW) topic(t string) *Topic {
	if tp, ok := g.topics[t]; ok {
		return tp
	}
	var topts []TopicOpt
	if g.cfg.Extra["fanout_only"] == t {
		topts = append(topts, FanoutOnly())
	}
	if g.cfg.IDFn == "topic-content" {
		topts = append(topts, WithTopicMessageIdFn(vfContentID))
	}
	tp, err := g.n.ps.Join(t, topts...)
	if err != nil {
		panic(err)
	}
	g.topics[t] = tp
	return tp
}

func (g *vfGW) pbMsg(m string) *pb.Message {
	spec, ok := g.msgs[m]
	if !ok {
		panic("unknown message " + m)
	}
	size := spec.Size
	if size == 0 {
		size = 4
	}
	data := make([]byte, size)
	copy(data, m)
	if spec.Data != "" {
		copy(data, spec.Data)
	}
	var from peer.ID
	if spec.Author != "" {
		from = g.pid(spec.Author)
	}
	pm := vfMsg(spec.Topic, from, spec.Seq, data)
	if g.cfg.Extra["sign"] != "" && spec.Author != "" {
		// honestly signed: author "x" has an RSA identity (its peer ID is a hash, so the message carries the key), every
		// other author the Ed25519 identity of its name (key embedded in the ID, no key field). RSA PKCS#1 v1.5 and
		// Ed25519 signatures are deterministic, so the same label always yields the same bytes.
		id := vfIdentity(spec.Author)
		if spec.Author == "x" {
			id = vfSignedAuthorX()
		}
		pm.From = []byte(id.id)
		if err := signMessage(id.id, id.priv, pm); err != nil {
			panic(err)
		}
		return pm
	}
	if spec.SeqHex == "-" {
		pm.Seqno = nil
	} else if spec.SeqHex != "" {
		b, err := hex.DecodeString(spec.SeqHex)
		if err != nil {
			panic(err)
		}
		pm.Seqno = b
	}
	return pm
}

var vfSignedX *vfIdent

// vfSignedAuthorX: the RSA identity of author "x" in signing scenarios (from the C03 key set; registered under a
// name so that canonical output does not depend on the key bytes, which differ from process to process).
func vfSignedAuthorX() *vfIdent {
	keys := vfC03KeySet() // (takes the identity lock itself)
	vfIdentMu.Lock()
	defer vfIdentMu.Unlock()
	if vfSignedX == nil {
		for _, k := range keys {
			if k.name == "rsa" {
				vfSignedX = &vfIdent{id: k.id, priv: k.priv, name: "x-rsa"}
				vfIdentByID[k.id] = vfSignedX
			}
		}
	}
	return vfSignedX
}

func (g *vfGW) msgID(m string) string {
	return DefaultMsgIdFn(g.pbMsg(m))
}

// msgLabel maps a wire message back to its label in the message table.
func (g *vfGW) msgLabel(m *pb.Message) string {
	g.lmu.Lock()
	defer g.lmu.Unlock()
	id := DefaultMsgIdFn(m)
	for _, k := range vfSortedKeys(g.msgs) {
		if g.msgID(k) == id {
			return k
		}
	}
	if peer.ID(m.GetFrom()) == g.n.id() {
		l := "local:" + strings.TrimRight(string(m.GetData()), "\x00")
		g.localID[id] = l
		return l
	}
	return "?" + vfIDName(id)
}

func (g *vfGW) idLabel(id string) string {
	g.lmu.Lock()
	defer g.lmu.Unlock()
	for _, k := range vfSortedKeys(g.msgs) {
		if g.msgID(k) == id {
			return k
		}
	}
	if l, ok := g.localID[id]; ok {
		return l
	}
	return vfIDName(id)
}

func (g *vfGW) clearStep() {
	g.unorderedStep = false
	for _, name := range g.order {
		g.fakes[name].take()
	}
	g.wire = map[string][]vfRecv{}
	g.deliv = nil
	if g.trace != nil {
		g.trace.take()
	}
}

// collect gathers what crossed the wire and what was delivered during the step.
func (g *vfGW) collect() {
	for _, name := range g.order {
		if r := g.fakes[name].take(); len(r) > 0 {
			g.wire[name] = append(g.wire[name], r...)
		}
	}
	for _, t := range vfSortedKeys(g.subs) {
		for i, s := range g.subs[t] {
			for {
				select {
				case m, ok := <-s.ch:
					if !ok {
						goto next
					}
					g.deliv = append(g.deliv, vfDelivery{sub: fmt.Sprintf("%s#%d", t, i), id: g.msgLabel(m.Message), raw: DefaultMsgIdFn(m.Message)})
					continue
				default:
				}
				break
			}
		next:
		}
	}
}

func (g *vfGW) doConnect(name string) {
	pc := g.pcfg[name]
	f := g.fake(name)
	if pc.Outbound {
		g.w.connect(g.n.id(), f.ident.id, "10.9.9.9", pc.IP)
	} else {
		g.w.connect(f.ident.id, g.n.id(), pc.IP, "10.9.9.9")
	}
	synctest.Wait()
	if err := f.openInbound(g.n.h, f.protos[0]); err != nil {
		panic(err)
	}
	g.conn[name] = true
}

// apply executes one event (without judging) and records wire/deliveries.
func (g *vfGW) apply(evFull string) {
	ev, ov := vfSplitChoice(evFull)
	vfCh.begin(ov)
	f := strings.Split(ev, ":")
	arg := func(i int) string {
		if i < len(f) {
			return f[i]
		}
		return ""
	}
	switch f[0] {
	case "conn":
		g.doConnect(arg(1))
	case "disc":
		g.w.disconnect(g.fake(arg(1)).ident.id, g.n.id())
		g.conn[arg(1)] = false
		g.gated[arg(1)] = false
	case "sub":
		g.fake(arg(1)).send(vfSubRPC(arg(2), true))
	case "unsub":
		g.fake(arg(1)).send(vfSubRPC(arg(2), false))
	case "sub2":
		// sub2:P:T+U -- ONE RPC announcing two topics
		rpc := &RPC{}
		for _, t := range strings.Split(arg(2), "+") {
			t, yes := t, true
			rpc.Subscriptions = append(rpc.Subscriptions, &pb.RPC_SubOpts{Topicid: &t, Subscribe: &yes})
		}
		g.fake(arg(1)).send(rpc)
	case "graft":
		g.fake(arg(1)).send(vfGraftRPC(arg(2)))
	case "prune":
		var bo uint64
		if arg(3) != "" {
			bo, _ = strconv.ParseUint(arg(3), 10, 64)
		}
		g.fake(arg(1)).send(vfPruneRPC(arg(2), bo))
	case "prunepx":
		// PRUNE with peer exchange: y valid record, z record of another peer, w garbage, v no record, u record sealed for a wrong domain, s valid envelope of another record type
		g.fake(arg(1)).send(vfPruneRPC(arg(2), 0, vfPXEntries()...))
	case "pub":
		g.fake(arg(1)).send(vfPubRPC(g.pbMsg(arg(2))))
	case "ip":
		// ip:P:ADDR -- the node's connection to P is now seen under another remote address (as when a second
		// connection over another path has replaced the first)
		g.w.mu.Lock()
		if c, ok := g.w.conns[[2]peer.ID{g.n.id(), g.pid(arg(1))}]; ok {
			c.addr = vfIPAddr(arg(2))
		}
		g.w.mu.Unlock()
	case "meshpeers":
		// meshpeers:T -- the partial-messages extension asks the router whom to send to (partialmessages.Router,
		// the seam the extension publishes through); it asks for joined and for fanout topics alike
		if g.n.gs != nil {
			g.n.eval(func() {
				for range (partialMessageRouter{g.n.gs}).MeshPeers(arg(1)) {
				}
			})
		}
	case "mhold":
		// mhold / mrel -- the sequence-number validator's nonce store becomes slow: reads park until released
		if g.meta != nil {
			g.meta.mu.Lock()
			g.meta.hold = true
			g.meta.mu.Unlock()
		}
	case "mrel":
		if g.meta != nil {
			g.meta.mu.Lock()
			g.meta.hold = false
			for _, ch := range g.meta.parked {
				close(ch)
			}
			g.meta.parked = nil
			g.meta.mu.Unlock()
		}
	case "adddirect":
		// adddirect:P / rmdirect:P -- the application tags / un-tags a peer as direct at run time
		if err := g.n.ps.AddDirectPeer(peer.AddrInfo{ID: g.pid(arg(1))}); err != nil {
			panic(err)
		}
	case "rmdirect":
		if err := g.n.ps.RemoveDirectPeer(g.pid(arg(1))); err != nil {
			panic(err)
		}
	case "pubgraft":
		// pubgraft:P:LABEL:T -- ONE RPC frame carrying a payload message and a GRAFT
		rpc := vfGraftRPC(arg(3))
		rpc.Publish = append(rpc.Publish, g.pbMsg(arg(2)))
		g.fake(arg(1)).send(rpc)
	case "pubdup":
		// two copies of the same message inside ONE RPC frame
		g.fake(arg(1)).send(vfPubRPC(g.pbMsg(arg(2)), g.pbMsg(arg(2))))
	case "lpubbatch":
		// lpubbatch:T:LABEL[:local] -- AddToBatch + PublishBatch (gossipsub only)
		data := make([]byte, 4)
		copy(data, arg(2))
		var popts []PubOpt
		if arg(3) == "local" {
			popts = append(popts, WithLocalPublication(true))
		}
		var b MessageBatch
		if err := g.topic(arg(1)).AddToBatch(context.Background(), &b, data, popts...); err != nil {
			g.lpubErr[arg(2)] = err.Error()
		} else if err := g.n.ps.PublishBatch(&b); err != nil {
			g.lpubErr[arg(2)] = err.Error()
		}
	case "lpubbatch2":
		// lpubbatch2:T:L1:U:L2 -- ONE batch with a message for T and a message for U (different recipient sets)
		g.unorderedStep = true
		var b MessageBatch
		for _, tl := range [][2]string{{arg(1), arg(2)}, {arg(3), arg(4)}} {
			data := make([]byte, 4)
			copy(data, tl[1])
			if err := g.topic(tl[0]).AddToBatch(context.Background(), &b, data); err != nil {
				g.lpubErr[tl[1]] = err.Error()
			}
		}
		if err := g.n.ps.PublishBatch(&b); err != nil {
			g.lpubErr[arg(2)] = err.Error()
		}
	case "ihave":
		t := arg(2)
		ids := []string{}
		for _, m := range strings.Split(arg(3), "+") {
			ids = append(ids, g.msgID(m))
		}
		g.fake(arg(1)).send(vfCtlRPC(&pb.ControlMessage{Ihave: []*pb.ControlIHave{{TopicID: &t, MessageIDs: ids}}}))
	case "iwant":
		ids := []string{}
		for _, m := range strings.Split(arg(2), "+") {
			ids = append(ids, g.msgID(m))
		}
		g.fake(arg(1)).send(vfCtlRPC(&pb.ControlMessage{Iwant: []*pb.ControlIWant{{MessageIDs: ids}}}))
	case "idw":
		// idw:P:m1+m2|m3 -- one RPC; "|" separates IDONTWANT entries of its control message
		var entries []*pb.ControlIDontWant
		for _, e := range strings.Split(arg(2), "|") {
			ids := []string{}
			for _, m := range strings.Split(e, "+") {
				ids = append(ids, g.msgID(m))
			}
			entries = append(entries, &pb.ControlIDontWant{MessageIDs: ids})
		}
		g.fake(arg(1)).send(vfCtlRPC(&pb.ControlMessage{Idontwant: entries}))
	case "join":
		s, err := g.topic(arg(1)).Subscribe()
		if err != nil {
			panic(err)
		}
		g.subs[arg(1)] = append(g.subs[arg(1)], s)
	case "leave":
		l := g.subs[arg(1)]
		if len(l) > 0 {
			s := l[len(l)-1]
			s.Cancel()
			synctest.Wait()
			g.collect() // drain before dropping the handle
			g.subs[arg(1)] = l[:len(l)-1]
			g.cancelled = append(g.cancelled, s)
		}
	case "close":
		if tp, ok := g.topics[arg(1)]; ok {
			if err := tp.Close(); err == nil {
				delete(g.topics, arg(1))
			} else {
				if g.closeErr == nil {
					g.closeErr = map[string]string{}
				}
				g.closeErr[arg(1)] = err.Error()
			}
		}
	case "relay":
		c, err := g.topic(arg(1)).Relay()
		if err != nil {
			g.lpubErr["relay:"+arg(1)] = err.Error() // e.g. ErrFanoutOnlyTopic
			break
		}
		g.relays[arg(1)] = append(g.relays[arg(1)], c)
	case "unrelay":
		l := g.relays[arg(1)]
		if len(l) > 0 {
			l[len(l)-1]()
			g.relays[arg(1)] = l[:len(l)-1]
		}
	case "lpub":
		data := make([]byte, 4)
		copy(data, arg(2))
		if sz := g.msgs[arg(2)].Size; sz > 4 {
			data = make([]byte, sz)
			copy(data, arg(2))
		}
		var popts []PubOpt
		if arg(3) == "local" {
			popts = append(popts, WithLocalPublication(true))
		}
		if arg(3) == "key" {
			// lpub:T:LABEL:key -- a key handed in for this one publication; the node (strict no-signing policy) has to
			// refuse the signed message it has just built
			k := vfIdentity("perpublish")
			popts = append(popts, WithSecretKeyAndPeerId(k.priv, k.id))
		}
		err := g.topic(arg(1)).Publish(context.Background(), data, popts...)
		if err != nil {
			g.lpubErr[arg(2)] = err.Error()
		}
		synctest.Wait()
		if g.n.gs != nil {
			g.n.eval(func() {
				g.lmu.Lock()
				defer g.lmu.Unlock()
				for id, m := range g.n.gs.mcache.msgs {
					if peer.ID(m.GetFrom()) == g.n.id() {
						g.localID[id] = "local:" + strings.TrimRight(string(m.GetData()), "\x00")
					}
				}
			})
		}
	case "letone":
		// letone:P -- a congested link: exactly one more write to P gets through the closed gate
		f := g.fake(arg(1))
		f.mu.Lock()
		st := f.out
		f.mu.Unlock()
		if st != nil {
			st.in.letOne()
		}
	case "lpubgo":
		// lpubgo:T:LABEL -- Publish from its own goroutine: with Extra["park_local"] its validators can be parked
		// by the explorer like those of a remote copy (released by vrel), so a local publication can be in progress
		// while other things happen
		data := make([]byte, 4)
		copy(data, arg(2))
		if sz := g.msgs[arg(2)].Size; sz > 4 {
			data = make([]byte, sz)
			copy(data, arg(2))
		}
		tp, label := g.topic(arg(1)), arg(2)
		go func() {
			if err := tp.Publish(context.Background(), data); err != nil {
				g.lmu.Lock()
				g.lpubErr[label] = err.Error()
				g.lmu.Unlock()
			}
		}()
	case "hb":
		hbI := time.Second
		if g.n.gs != nil {
			hbI = g.n.gs.params.HeartbeatInterval
		}
		// heartbeats fire at t0 + initial delay + k*interval; go to just after the next one
		el := g.now()
		next := (el/hbI + 1) * hbI
		time.Sleep(next - el + time.Millisecond)
	case "adv":
		ms, _ := strconv.Atoi(arg(1))
		time.Sleep(time.Duration(ms) * time.Millisecond)
	case "score":
		v, _ := strconv.ParseFloat(arg(2), 64)
		g.appMu.Lock()
		g.app[g.pid(arg(1))] = v
		g.appMu.Unlock()
	case "gate":
		g.setGate(arg(1), true)
	case "ungate":
		g.setGate(arg(1), false)
	case "bl":
		g.n.ps.BlacklistPeer(g.pid(arg(1)))
	case "blimpl":
		// the application adds the peer to the configured blacklist implementation directly
		g.n.eval(func() { g.n.ps.blacklist.Add(g.pid(arg(1))) })
	case "inclose":
		if s := g.fake(arg(1)).in; s != nil {
			s.Close()
		}
	case "inreset":
		if s := g.fake(arg(1)).in; s != nil {
			s.Reset()
		}
	case "inopen":
		if err := g.fake(arg(1)).openInbound(g.n.h, g.fake(arg(1)).protos[0]); err != nil {
			panic(err)
		}
	case "outreset":
		if s := g.fake(arg(1)).out; s != nil {
			s.Reset()
		}
	case "outclose":
		if s := g.fake(arg(1)).out; s != nil {
			s.Close()
		}
	case "holdy":
		g.ymu.Lock()
		g.yArmed[arg(1)+"|"+arg(2)] = true
		g.ymu.Unlock()
	case "rely":
		g.releaseYield(arg(1) + "|" + arg(2))
	case "vrel":
		g.release(arg(1), arg(2), vfVerdict(arg(3)))
	case "hold":
		g.w.setPolicy(g.n.id(), g.pid(arg(1)), vfStreamBlock)
		g.held[arg(1)] = true
	case "release":
		g.w.setPolicy(g.n.id(), g.pid(arg(1)), vfStreamOK)
		g.held[arg(1)] = false
	case "failstream":
		g.w.setPolicy(g.n.id(), g.pid(arg(1)), vfStreamFail)
		g.held[arg(1)] = false
	default:
		panic("unknown event " + ev)
	}
	synctest.Wait()
	g.lastPts = vfCh.points()
	vfCh.begin(nil)
	g.collect()
}

func (g *vfGW) setGate(name string, on bool) {
	f := g.fake(name)
	f.mu.Lock()
	s := f.out
	f.mu.Unlock()
	if s != nil {
		s.in.setGate(on)
	}
	g.gated[name] = on
}

// ---------------------------------------------------------------- snapshots

type vfSnap struct {
	Now      time.Duration
	Ticks    uint64
	Peers    map[string]string          // router peers -> protocol
	Queues   map[string]bool            // p.peers
	QueueLen map[string]int             // RPCs waiting in each outbound queue
	Topics   map[string]map[string]bool // p.topics
	Mesh     map[string]map[string]bool
	Fanout   map[string]map[string]bool
	LastPub  map[string]time.Duration            // age of lastpub
	Backoff  map[string]map[string]time.Duration // remaining (may be negative)
	Direct   map[string]bool
	Outbound map[string]bool
	Score    map[string]float64
	Penalty  map[string]float64
	Invalid  map[string]float64 // sum of invalidMessageDeliveries
	MySubs   map[string]int
	MyRelays map[string]int
	Unwanted map[string]map[string]int
	Control  map[string]string
	Gossip   map[string]int
	PeerHave map[string]int
	IAsked   map[string]int
	PeerDW   map[string]int
	Blacklst map[string]bool
	Promises map[string][]string
	PromExp  map[string]time.Duration // "peer|msg" -> remaining time of the promise
	OK       bool
}

func vfSet(m map[peer.ID]struct{}) map[string]bool {
	out := map[string]bool{}
	for p := range m {
		out[vfName(p)] = true
	}
	return out
}

func (g *vfGW) snap() *vfSnap {
	s := &vfSnap{Peers: map[string]string{}, Queues: map[string]bool{}, QueueLen: map[string]int{}, Topics: map[string]map[string]bool{}, Mesh: map[string]map[string]bool{},
		Fanout: map[string]map[string]bool{}, LastPub: map[string]time.Duration{}, Backoff: map[string]map[string]time.Duration{},
		Direct: map[string]bool{}, Outbound: map[string]bool{}, Score: map[string]float64{}, Penalty: map[string]float64{}, Invalid: map[string]float64{},
		MySubs: map[string]int{}, MyRelays: map[string]int{}, Unwanted: map[string]map[string]int{}, Control: map[string]string{}, Gossip: map[string]int{},
		PeerHave: map[string]int{}, IAsked: map[string]int{}, PeerDW: map[string]int{}, Blacklst: map[string]bool{}, Promises: map[string][]string{}, PromExp: map[string]time.Duration{}}
	s.OK = g.n.eval(func() {
		p := g.n.ps
		now := time.Now()
		s.Now = now.Sub(g.t0)
		for pid, q := range p.peers {
			s.Queues[vfName(pid)] = true
			q.queueMu.Lock()
			s.QueueLen[vfName(pid)] = q.queue.Len()
			q.queueMu.Unlock()
		}
		for t, m := range p.topics {
			s.Topics[t] = map[string]bool{}
			for pid := range m {
				s.Topics[t][vfName(pid)] = true
			}
		}
		for t, m := range p.mySubs {
			s.MySubs[t] = len(m)
		}
		for t, c := range p.myRelays {
			s.MyRelays[t] = c
		}
		for _, name := range g.order {
			if p.blacklist.Contains(g.pid(name)) {
				s.Blacklst[name] = true
			}
		}
		gs := g.n.gs
		if gs == nil {
			if rs, ok := p.rt.(*RandomSubRouter); ok {
				for pid, proto := range rs.peers {
					s.Peers[vfName(pid)] = string(proto)
				}
			}
			return
		}
		s.Ticks = gs.heartbeatTicks
		for pid, proto := range gs.peers {
			s.Peers[vfName(pid)] = string(proto)
		}
		for t, m := range gs.mesh {
			s.Mesh[t] = vfSet(m)
		}
		for t, m := range gs.fanout {
			s.Fanout[t] = vfSet(m)
		}
		for t, lp := range gs.lastpub {
			s.LastPub[t] = time.Duration(now.UnixNano() - lp)
		}
		for t, m := range gs.backoff {
			s.Backoff[t] = map[string]time.Duration{}
			for pid, exp := range m {
				s.Backoff[t][vfName(pid)] = exp.Sub(now)
			}
		}
		for pid := range gs.direct {
			s.Direct[vfName(pid)] = true
		}
		for pid, o := range gs.outbound {
			s.Outbound[vfName(pid)] = o
		}
		for pid, m := range gs.unwanted {
			s.Unwanted[vfName(pid)] = map[string]int{}
			for cs, ttl := range m {
				s.Unwanted[vfName(pid)][fmt.Sprintf("%x/%d", cs.payload[:8], cs.length)] = ttl
			}
		}
		for pid, c := range gs.control {
			s.Control[vfName(pid)] = vfRenderRPC(vfCtlRPC(c), nil)
		}
		for pid, ih := range gs.gossip {
			s.Gossip[vfName(pid)] = len(ih)
		}
		for pid, c := range gs.peerhave {
			s.PeerHave[vfName(pid)] = c
		}
		for pid, c := range gs.iasked {
			s.IAsked[vfName(pid)] = c
		}
		for pid, c := range gs.peerdontwant {
			s.PeerDW[vfName(pid)] = c
		}
		if gs.score != nil {
			for _, name := range g.order {
				s.Score[name] = gs.score.Score(g.pid(name))
			}
			gs.score.Lock()
			for pid, st := range gs.score.peerStats {
				s.Penalty[vfName(pid)] = st.behaviourPenalty
				for _, ts := range st.topics {
					s.Invalid[vfName(pid)] += ts.invalidMessageDeliveries
				}
			}
			gs.score.Unlock()
		}
		if gs.gossipTracer != nil {
			gs.gossipTracer.Lock()
			for mid, m := range gs.gossipTracer.promises {
				for pid, exp := range m {
					s.Promises[vfName(pid)] = append(s.Promises[vfName(pid)], g.idLabel(mid))
					s.PromExp[vfName(pid)+"|"+g.idLabel(mid)] = exp.Sub(now)
				}
			}
			gs.gossipTracer.Unlock()
			for _, l := range s.Promises {
				sort.Strings(l)
			}
		}
	})
	return s
}

// ---------------------------------------------------------------- rendering

func (g *vfGW) midFn() func(*pb.Message) string {
	return func(m *pb.Message) string { return g.msgLabel(m) }
}

// wireLog renders what each fake received during the step (per-peer sequences;
// the order across peers is not significant).
func (g *vfGW) wireLog() string {
	var parts []string
	for _, name := range g.order {
		rs := g.wire[name]
		if len(rs) == 0 {
			continue
		}
		var l []string
		for _, r := range rs {
			l = append(l, vfRenderRPC(r.rpc, g.midFn()))
		}
		if g.unorderedStep {
			// (the messages of one batch are handed to the queues in the order of a map iteration in the batch
			// scheduler: which of them a peer gets first is not a fact about the step)
			sort.Strings(l)
		}
		parts = append(parts, name+"<"+strings.Join(l, " | ")+">")
	}
	var d []string
	for _, x := range g.deliv {
		d = append(d, x.sub+"="+x.id)
	}
	sort.Strings(d)
	if len(d) > 0 {
		parts = append(parts, "DELIVER{"+strings.Join(d, ",")+"}")
	}
	return strings.Join(parts, " ")
}

// canon = node dump + harness view.
func (g *vfGW) canon() string {
	var sb strings.Builder
	sb.WriteString(g.n.canon())
	for _, name := range g.order {
		g.appMu.Lock()
		sc := g.app[g.pid(name)]
		g.appMu.Unlock()
		fmt.Fprintf(&sb, "\n%s: conn=%v gated=%v app=%v %s", name, g.conn[name], g.gated[name], sc, g.fakes[name].streamStates())
		// (the environment is part of the state: what the node would see if it looked at the connection again)
		g.w.mu.Lock()
		if c, ok := g.w.conns[[2]peer.ID{g.n.id(), g.pid(name)}]; ok && c.addr != nil {
			fmt.Fprintf(&sb, " addr=%s", c.addr)
		}
		g.w.mu.Unlock()
	}
	for _, t := range vfSortedKeys(g.subs) {
		fmt.Fprintf(&sb, "\nsubs[%s]=%d relays=%d", t, len(g.subs[t]), len(g.relays[t]))
	}
	ya, yp := g.yieldState()
	fmt.Fprintf(&sb, "\nvalpending=%v held=%v yield-armed=%v yield-parked=%v", g.pendingVals(), vfKeys(g.held), ya, yp)
	if g.meta != nil {
		fmt.Fprintf(&sb, " store{%s}", g.meta.state())
	}
	return sb.String()
}

func (g *vfGW) finish() {
	vfCh.begin(nil)
	g.ymu.Lock()
	g.yArmed = map[string]bool{}
	for k, ch := range g.yParked {
		close(ch)
		delete(g.yParked, k)
	}
	if g.x.judge {
		for point, n := range g.yCount {
			g.x.r.count("stream_goroutine_held_at:"+point, int64(n))
		}
	}
	g.ymu.Unlock()
	defer func() { verifHooks.yield = nil }()
	if g.cfg.Extra["validators_ignore_ctx"] != "" {
		// validators that ignore their context are ended by hand, after the cancellation, until none is left (a
		// worker may pick up one more queued message before it notices the cancellation)
		g.n.cancel()
		synctest.Wait()
		for round := 0; round < 8; round++ {
			n := 0
			g.vmu.Lock()
			for _, inv := range g.valPend {
				if inv.gate != nil {
					inv.gate <- ValidationIgnore
					inv.gate = nil
					n++
				}
			}
			g.vmu.Unlock()
			synctest.Wait()
			if n == 0 {
				break
			}
		}
	}
	vfTeardown(g.w, g.n)
	if left := vfLeftovers(); len(left) > 0 {
		g.x.r.count("hygiene_leftover_goroutines", int64(len(left)))
		if g.x.r.res.Counters["hygiene_leftover_goroutines"] <= int64(len(left)) {
			g.x.r.note("leftover goroutine(s) after teardown: %s", vfFirstLine(left[0]))
		}
		if g.cfg.Extra["leak_is_violation"] != "" {
			// C14: the teardown of every execution is itself a cancellation point
			for _, gr := range left {
				created := gr
				if i := strings.LastIndex(gr, "created by "); i >= 0 {
					created = gr[i:]
				}
				if strings.Contains(created, ".vf") || strings.Contains(created, "(*vf") {
					continue
				}
				fn := strings.Fields(strings.TrimPrefix(vfFirstLine(created), "created by "))[0]
				g.x.judge = true
				g.x.violation("c14:goroutine-leak:"+fn, fmt.Sprintf("[%s] a goroutine created by %s is still alive after the context was cancelled, the host's streams were closed and 45 virtual seconds passed", g.cfg.Router, fn))
			}
		}
	}
}

// frames of kind on the wire this step, per peer
func (g *vfGW) sentTo(name string) []*RPC {
	var out []*RPC
	for _, r := range g.wire[name] {
		if r.rpc != nil {
			out = append(out, r.rpc)
		}
	}
	return out
}

func vfHasGraft(r *RPC, topic string) bool {
	for _, x := range r.GetControl().GetGraft() {
		if x.GetTopicID() == topic {
			return true
		}
	}
	return false
}

func vfGetPrune(r *RPC, topic string) *pb.ControlPrune {
	for _, x := range r.GetControl().GetPrune() {
		if x.GetTopicID() == topic {
			return x
		}
	}
	return nil
}

type vfBogusRecord struct{ b []byte }

func (r *vfBogusRecord) Domain() string                 { return "vf-bogus-domain" }
func (r *vfBogusRecord) Codec() []byte                  { return []byte{0x03, 0x99} }
func (r *vfBogusRecord) MarshalRecord() ([]byte, error) { return r.b, nil }
func (r *vfBogusRecord) UnmarshalRecord(b []byte) error { r.b = b; return nil }

// vfForeignRecord: a record type that IS registered with core/record (like the relay reservation voucher every libp2p
// host registers next to the peer record) and is sealed under the PEER RECORD signature domain: the domain is only a
// string mixed into the signature and the key is the sender's own, so such an envelope passes ConsumeEnvelope for
// the peer-record domain and yields a record that is not a *peer.PeerRecord.
type vfForeignRecord struct{ b []byte }

func (r *vfForeignRecord) Domain() string                 { return peer.PeerRecordEnvelopeDomain }
func (r *vfForeignRecord) Codec() []byte                  { return []byte{0x03, 0x98} }
func (r *vfForeignRecord) MarshalRecord() ([]byte, error) { return r.b, nil }
func (r *vfForeignRecord) UnmarshalRecord(b []byte) error { r.b = b; return nil }

func init() { record.RegisterType(&vfForeignRecord{}) }

var vfPXCache []*pb.PeerInfo

func vfPXEntries() []*pb.PeerInfo {
	if vfPXCache != nil {
		return vfPXCache
	}
	seal := func(signer, about string) []byte {
		rec := &peer.PeerRecord{PeerID: vfIdentity(about).id, Seq: 1}
		env, err := record.Seal(rec, vfIdentity(signer).priv)
		if err != nil {
			panic(err)
		}
		b, err := env.Marshal()
		if err != nil {
			panic(err)
		}
		return b
	}
	bogusEnv, err := record.Seal(&vfBogusRecord{b: []byte("hello")}, vfIdentity("u").priv)
	if err != nil {
		panic(err)
	}
	bogus, _ := bogusEnv.Marshal()
	foreignEnv, err := record.Seal(&vfForeignRecord{b: []byte("not a peer record")}, vfIdentity("s").priv)
	if err != nil {
		panic(err)
	}
	foreign, _ := foreignEnv.Marshal()
	vfPXCache = []*pb.PeerInfo{
		{PeerID: []byte(vfIdentity("y").id), SignedPeerRecord: seal("y", "y")},
		{PeerID: []byte(vfIdentity("z").id), SignedPeerRecord: seal("y", "y")},
		{PeerID: []byte(vfIdentity("w").id), SignedPeerRecord: []byte("garbage-not-an-envelope")},
		{PeerID: []byte(vfIdentity("v").id)},
		{PeerID: []byte(vfIdentity("u").id), SignedPeerRecord: bogus},
		{PeerID: []byte(vfIdentity("s").id), SignedPeerRecord: foreign}, // valid envelope for the peer-record domain, payload of another registered type
	}
	return vfPXCache
}

var _ = network.DirInbound
var _ = protocol.ID("")
