package vsync

import "sync"

// Pass-through names so that a file whose "sync" import is redirected here keeps compiling.
type (
	Locker    = sync.Locker
	Once      = sync.Once
	WaitGroup = sync.WaitGroup
	Pool      = sync.Pool
	Map       = sync.Map
)

func OnceFunc(f func()) func()                           { return sync.OnceFunc(f) }
func OnceValue[T any](f func() T) func() T               { return sync.OnceValue(f) }
func OnceValues[A, B any](f func() (A, B)) func() (A, B) { return sync.OnceValues(f) }

// mode returns the scheduler if the caller is a controlled thread.
func mode() (s *Sched, controlled bool, noop bool) {
	s = active
	if s == nil {
		return nil, false, false
	}
	if s.killed {
		return s, false, true
	}
	if s.current == nil {
		return nil, false, false
	}
	return s, true, false
}

type modelLocker interface {
	model() *muState
	unlockModel()
}

// Mutex mirrors sync.Mutex.
type Mutex struct {
	real sync.Mutex
	m    *muState
	own  *Sched
}

func (m *Mutex) model() *muState {
	if m.m == nil || m.own != active {
		m.m = active.newMu()
		m.own = active
	}
	return m.m
}
func (m *Mutex) unlockModel() { m.model().writer = false }

func (m *Mutex) Lock() {
	s, ctl, noop := mode()
	if noop {
		return
	}
	if !ctl {
		m.real.Lock()
		return
	}
	s.yield(op{kind: opLock, mu: m.model()})
}

func (m *Mutex) TryLock() bool {
	s, ctl, noop := mode()
	if noop {
		return true
	}
	if !ctl {
		return m.real.TryLock()
	}
	s.yield(op{kind: opPoint, name: "TryLock"})
	if st := m.model(); !st.writer && st.readers == 0 {
		st.writer = true
		return true
	}
	return false
}

func (m *Mutex) Unlock() {
	s, ctl, noop := mode()
	if noop {
		return
	}
	if !ctl {
		m.real.Unlock()
		return
	}
	if !m.model().writer {
		panic("vsync: unlock of unlocked mutex")
	}
	s.yield(op{kind: opUnlock, mu: m.model()})
}

// RWMutex mirrors sync.RWMutex (writers are not preferred: a conservative
// over-approximation of the schedules sync.RWMutex allows).
type RWMutex struct {
	real sync.RWMutex
	m    *muState
	own  *Sched
}

func (m *RWMutex) model() *muState {
	if m.m == nil || m.own != active {
		m.m = active.newMu()
		m.own = active
	}
	return m.m
}
func (m *RWMutex) unlockModel() { m.model().writer = false }

func (m *RWMutex) Lock() {
	s, ctl, noop := mode()
	if noop {
		return
	}
	if !ctl {
		m.real.Lock()
		return
	}
	s.yield(op{kind: opLock, mu: m.model()})
}
func (m *RWMutex) Unlock() {
	s, ctl, noop := mode()
	if noop {
		return
	}
	if !ctl {
		m.real.Unlock()
		return
	}
	s.yield(op{kind: opUnlock, mu: m.model()})
}
func (m *RWMutex) RLock() {
	s, ctl, noop := mode()
	if noop {
		return
	}
	if !ctl {
		m.real.RLock()
		return
	}
	s.yield(op{kind: opRLock, mu: m.model()})
}
func (m *RWMutex) RUnlock() {
	s, ctl, noop := mode()
	if noop {
		return
	}
	if !ctl {
		m.real.RUnlock()
		return
	}
	s.yield(op{kind: opRUnlock, mu: m.model()})
}
func (m *RWMutex) RLocker() Locker { return (*rlocker)(m) }

type rlocker RWMutex

func (r *rlocker) Lock()   { (*RWMutex)(r).RLock() }
func (r *rlocker) Unlock() { (*RWMutex)(r).RUnlock() }

// Cond mirrors sync.Cond.
type Cond struct {
	L       Locker
	real    *sync.Cond
	waiters []*Thread
	id      int
	own     *Sched
}

func NewCond(l Locker) *Cond { return &Cond{L: l} }

func (c *Cond) realCond() *sync.Cond {
	if c.real == nil {
		c.real = sync.NewCond(c.L)
	}
	return c.real
}

func (c *Cond) mustLock() modelLocker {
	ml, ok := c.L.(modelLocker)
	if !ok {
		panic("vsync: Cond.L is not a vsync lock")
	}
	return ml
}

func (c *Cond) reg(s *Sched) {
	if c.own != s {
		c.own = s
		c.id = len(s.conds)
		c.waiters = nil
		s.conds = append(s.conds, c)
	}
}

func (c *Cond) Wait() {
	s, ctl, noop := mode()
	if noop {
		return
	}
	if !ctl {
		c.realCond().Wait()
		return
	}
	c.reg(s)
	s.yield(op{kind: opCondWait, cond: c})
}

func (c *Cond) Signal() {
	s, ctl, noop := mode()
	if noop {
		return
	}
	if !ctl {
		c.realCond().Signal()
		return
	}
	c.reg(s)
	s.yield(op{kind: opSignal, cond: c})
}

func (c *Cond) Broadcast() {
	s, ctl, noop := mode()
	if noop {
		return
	}
	if !ctl {
		c.realCond().Broadcast()
		return
	}
	c.reg(s)
	s.yield(op{kind: opBroadcast, cond: c})
}
