// Package vsync is a drop-in replacement for the parts of package sync used by
// the components under test, backed by a cooperative controlled scheduler.
//
// When no scheduler is active every type behaves exactly like its sync
// counterpart (it delegates).  When a scheduler is active, each harness thread
// yields to the scheduler *before* every synchronisation operation; the
// scheduler keeps the exact enabled set (a Lock on a held mutex is disabled, a
// Cond waiter is disabled until signalled and then needs the lock), so waiting
// is visible: "no enabled thread, some unfinished" is a deadlock / lost wake-up.
package vsync

import (
	"context"
	"fmt"
	"strings"
	"sync"
)

type opKind int

const (
	opStart opKind = iota
	opLock
	opUnlock
	opRLock
	opRUnlock
	opCondWait
	opWaitSignal // parked in a Cond, not yet signalled (never enabled)
	opSignal
	opBroadcast
	opPoint
)

var opNames = [...]string{"start", "Lock", "Unlock", "RLock", "RUnlock", "Wait", "waiting", "Signal", "Broadcast", "point"}

type op struct {
	kind opKind
	mu   *muState
	cond *Cond
	name string
}

type muState struct {
	writer  bool
	readers int
	id      int
}

// Thread is one controlled thread of the harness.
type Thread struct {
	ID      int
	Name    string
	wake    chan struct{}
	pending op
	done    bool
	started bool
	steps   int
	fn      func()
	panicV  any
}

type afterFunc struct {
	ctx     context.Context
	f       func()
	stopped bool
	fired   bool
}

// Point describes one scheduling point of an execution.
type Point struct {
	Enabled []int // thread ids in canonical order: running thread first if still enabled, then ascending
	Chosen  int   // index into Enabled
	Running bool  // the previously running thread is still enabled (choosing another one is a preemption)
	Op      string
}

type Sched struct {
	threads []*Thread
	current *Thread
	ctl     chan *Thread
	afters  []*afterFunc
	nmu     int
	mus     []*muState
	conds   []*Cond

	Points   []Point
	Choices  []int
	Deadlock bool
	Trace    []string
	// StateKey, when set, is consulted at every scheduling point beyond the
	// replayed prefix; returning false aborts the run (state already explored).
	Visit    func(key string) bool
	Extra    func() string // component state for the key
	Pruned   bool
	prefixN  int
	MaxSteps int
	Overrun  bool
	killed   bool
	killWG   sync.WaitGroup
}

var active *Sched

type killedSentinel struct{}

// Active reports whether a controlled scheduler is running.
func Active() bool { return active != nil }

func New() *Sched {
	return &Sched{ctl: make(chan *Thread), MaxSteps: 5000}
}

// Spawn registers a thread; it does not run before Run schedules it.
func (s *Sched) Spawn(name string, f func()) *Thread {
	t := &Thread{ID: len(s.threads), Name: name, wake: make(chan struct{}), fn: f, pending: op{kind: opStart}}
	s.threads = append(s.threads, t)
	return t
}

func (s *Sched) newMu() *muState {
	m := &muState{id: len(s.mus)}
	s.mus = append(s.mus, m)
	return m
}

func (s *Sched) enabled(t *Thread) bool {
	if t.done {
		return false
	}
	switch t.pending.kind {
	case opLock:
		return !t.pending.mu.writer && t.pending.mu.readers == 0
	case opRLock:
		return !t.pending.mu.writer
	case opWaitSignal:
		return false
	}
	return true
}

// yield is called by the running thread before a synchronisation operation.
func (s *Sched) yield(o op) {
	t := s.current
	t.pending = o
	s.ctl <- t
	<-t.wake
	if s.killed {
		panic(killedSentinel{})
	}
}

func (s *Sched) apply(t *Thread) (run bool) {
	o := t.pending
	switch o.kind {
	case opLock:
		o.mu.writer = true
	case opUnlock:
		o.mu.writer = false
	case opRLock:
		o.mu.readers++
	case opRUnlock:
		o.mu.readers--
	case opCondWait:
		// atomically release the lock and park
		o.cond.mustLock().unlockModel()
		o.cond.waiters = append(o.cond.waiters, t)
		t.pending = op{kind: opWaitSignal, cond: o.cond}
		return false
	case opSignal:
		if len(o.cond.waiters) > 0 {
			w := o.cond.waiters[0]
			o.cond.waiters = o.cond.waiters[1:]
			w.pending = op{kind: opLock, mu: o.cond.mustLock().model()}
		}
	case opBroadcast:
		for _, w := range o.cond.waiters {
			w.pending = op{kind: opLock, mu: o.cond.mustLock().model()}
		}
		o.cond.waiters = nil
	}
	return true
}

func (s *Sched) describe(t *Thread) string {
	o := t.pending
	d := opNames[o.kind]
	if o.mu != nil {
		d += fmt.Sprintf("(m%d)", o.mu.id)
	}
	if o.cond != nil {
		d += fmt.Sprintf("(c%d)", o.cond.id)
	}
	if o.name != "" {
		d += ":" + o.name
	}
	return t.Name + "." + d
}

func (s *Sched) key() string {
	var sb strings.Builder
	for _, t := range s.threads {
		fmt.Fprintf(&sb, "%s:%d:%v:%s|", t.Name, t.steps, t.done, s.describe(t))
	}
	for _, m := range s.mus {
		fmt.Fprintf(&sb, "m%d:%v:%d|", m.id, m.writer, m.readers)
	}
	for _, c := range s.conds {
		sb.WriteString("c[")
		for _, w := range c.waiters {
			sb.WriteString(w.Name + ",")
		}
		sb.WriteString("]|")
	}
	for _, a := range s.afters {
		fmt.Fprintf(&sb, "af:%v:%v|", a.stopped, a.fired)
	}
	if s.Extra != nil {
		sb.WriteString(s.Extra())
	}
	return sb.String()
}

// Run executes the spawned threads, replaying prefix and then always taking
// choice 0.  A choice out of range while replaying is a hard error (panic).
func (s *Sched) Run(prefix []int) {
	if active != nil {
		panic("vsync: nested scheduler")
	}
	active = s
	defer func() { active = nil }()
	s.prefixN = len(prefix)
	var last *Thread
	steps := 0
	for {
		var en []*Thread
		lastEnabled := last != nil && s.enabled(last)
		if lastEnabled {
			en = append(en, last)
		}
		for _, t := range s.threads {
			if t != last && s.enabled(t) {
				en = append(en, t)
			}
		}
		if len(en) == 0 {
			for _, t := range s.threads {
				if !t.done {
					s.Deadlock = true
				}
			}
			break
		}
		steps++
		if steps > s.MaxSteps {
			s.Overrun = true
			break
		}
		k := len(s.Points)
		if k >= s.prefixN && s.Visit != nil {
			if !s.Visit(s.key()) {
				s.Pruned = true
				break
			}
		}
		choice := 0
		if k < len(prefix) {
			choice = prefix[k]
			if choice < 0 || choice >= len(en) {
				panic(fmt.Sprintf("vsync: replay divergence at point %d: choice %d of %d enabled", k, choice, len(en)))
			}
		}
		t := en[choice]
		ids := make([]int, len(en))
		for i, x := range en {
			ids[i] = x.ID
		}
		s.Points = append(s.Points, Point{Enabled: ids, Chosen: choice, Running: lastEnabled, Op: s.describe(t)})
		s.Choices = append(s.Choices, choice)
		s.Trace = append(s.Trace, s.describe(t))
		last = t
		if !s.apply(t) {
			continue // parked in a Cond: nothing runs
		}
		t.steps++
		s.current = t
		if !t.started {
			t.started = true
			go func(t *Thread) {
				<-t.wake
				defer func() {
					e := recover()
					if s.killed {
						s.killWG.Done()
						return
					}
					if e != nil {
						t.panicV = e
					}
					t.done = true
					s.ctl <- t
				}()
				t.fn()
			}(t)
		}
		t.wake <- struct{}{}
		<-s.ctl // the thread yielded again or finished
		s.current = nil
	}
	// release every parked goroutine so that nothing leaks between executions
	s.abandon()
}

// abandon unwinds every parked thread goroutine (after a deadlock or a pruned
// run): it is woken in killed mode, panics with a sentinel inside yield, its
// deferred component code runs against no-op primitives, and it exits.
func (s *Sched) abandon() {
	s.killed = true
	for _, t := range s.threads {
		if t.started && !t.done {
			s.killWG.Add(1)
			t.wake <- struct{}{}
		}
	}
	s.killWG.Wait()
}

// Panics returns the panic values of threads that panicked.
func (s *Sched) Panics() map[string]any {
	out := map[string]any{}
	for _, t := range s.threads {
		if t.panicV != nil {
			out[t.Name] = t.panicV
		}
	}
	return out
}

// Unfinished lists threads that did not run to completion (deadlock analysis).
func (s *Sched) Unfinished() []string {
	var out []string
	for _, t := range s.threads {
		if !t.done {
			out = append(out, s.describe(t))
		}
	}
	return out
}

// YieldPoint is a harness-declared scheduling point.
func YieldPoint(name string) {
	if s := active; s != nil && s.current != nil {
		s.yield(op{kind: opPoint, name: name})
	}
}

// RegisterAfterFunc implements context.AfterFunc under the scheduler: f runs
// as a new controlled thread once ctx is done (FireAfterFuncs is called by the
// harness right after it cancels a context).
func RegisterAfterFunc(ctx context.Context, f func()) (stop func() bool, ok bool) {
	s := active
	if s == nil || s.current == nil {
		return nil, false
	}
	a := &afterFunc{ctx: ctx, f: f}
	s.afters = append(s.afters, a)
	if ctx.Err() != nil {
		s.fire(a)
	}
	return func() bool {
		if a.fired || a.stopped {
			return false
		}
		a.stopped = true
		return true
	}, true
}

func (s *Sched) fire(a *afterFunc) {
	a.fired = true
	s.Spawn(fmt.Sprintf("afterfunc%d", len(s.threads)), a.f)
}

// FireAfterFuncs spawns the callbacks of every registered AfterFunc whose
// context is done.
func FireAfterFuncs() {
	s := active
	if s == nil {
		return
	}
	for _, a := range s.afters {
		if !a.fired && !a.stopped && a.ctx.Err() != nil {
			s.fire(a)
		}
	}
}
