// Package vcontext redirects context.AfterFunc to the controlled scheduler of
// package vsync and passes everything else through to package context.
package vcontext

import (
	"context"
	"time"

	"github.com/libp2p/go-libp2p-pubsub/internal/verifshim/vsync"
)

type (
	Context         = context.Context
	CancelFunc      = context.CancelFunc
	CancelCauseFunc = context.CancelCauseFunc
)

var (
	Canceled         = context.Canceled
	DeadlineExceeded = context.DeadlineExceeded
)

func Background() Context                                          { return context.Background() }
func TODO() Context                                                { return context.TODO() }
func WithCancel(p Context) (Context, CancelFunc)                   { return context.WithCancel(p) }
func WithCancelCause(p Context) (Context, CancelCauseFunc)         { return context.WithCancelCause(p) }
func WithTimeout(p Context, d time.Duration) (Context, CancelFunc) { return context.WithTimeout(p, d) }
func WithDeadline(p Context, t time.Time) (Context, CancelFunc)    { return context.WithDeadline(p, t) }
func WithValue(p Context, k, v any) Context                        { return context.WithValue(p, k, v) }
func WithoutCancel(p Context) Context                              { return context.WithoutCancel(p) }
func Cause(c Context) error                                        { return context.Cause(c) }

// AfterFunc: under the controlled scheduler the callback becomes a new
// controlled thread (spawned when the harness cancels the context); otherwise
// it is the real context.AfterFunc.
func AfterFunc(ctx Context, f func()) (stop func() bool) {
	if stop, ok := vsync.RegisterAfterFunc(ctx, f); ok {
		return stop
	}
	return context.AfterFunc(ctx, f)
}
