# Per-check driver configuration: evidence level, worker variants, shard counts,
# internal deadlines (seconds) and the evidence "rule" / assumptions texts.
COMMON_ASSUME = [
    "Go runtime, testing/synctest virtual time and the sync package behave as documented",
    "unsynchronised data accesses are outside a cooperative exploration; they are the business of the separate free-running -race pass",
]

CHECKS = {
    "C15": {
        "level": "model_checking",
        "variants": ["main"],
        "shards": 3,
        "deadline_quick": 90, "deadline_thorough": 900,
        "technique": "explicit-state BFS by replay over the real rpcQueue vs. a reference model",
        "rule": "state = canonical dump of the real queue + pending calls + cancelled contexts; "
                "a transition is one queue operation run to quiescence in a synctest bubble; "
                "non-trivial = distinct canonical observation log of an execution",
        "assumptions": COMMON_ASSUME,
    },
}
