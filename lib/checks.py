# Per-check driver configuration: evidence level, worker variants, shard counts,
# internal deadlines (seconds), evidence "rule"/assumptions and the MANIFEST texts.
COMMON_ASSUME = [
    "Go runtime, testing/synctest virtual time and the sync package behave as documented",
    "goroutine schedules inside one quiescence step are not enumerated by the event-level search (node state is loop-confined); "
    "unsynchronised accesses are the business of the separate free-running -race pass, lock-level interleavings of the shared components of E-SCHED",
]

WORLD_RULE = ("state = canonical dump of the real PubSub/router/score object graph (reflection walk, unexported fields included) + harness view "
              "(connections, stream states, gates, monitor state); a transition is one event applied through the real entry points and run to "
              "quiescence in a synctest bubble; non-trivial = distinct canonical observation log of an execution")

ALL_PROPERTIES = ["C%02d" % i for i in range(1, 21)]

CHECKS = {
    "C01": {
        "level": "model_checking", "shards": 16, "deadline_quick": 110, "deadline_thorough": 2400,
        "engine": "E-NET",
        "technique": "exhaustive configuration enumeration + bounded exploration of link-delivery orders over several real nodes in one synctest bubble (harness-owned links hold every frame; the explorer picks the link that delivers next)",
        "rule": "state = one settled network configuration (labelled connected topology x router per node x role per node x optional churn step x publisher); a transition is one complete run of the measured phase under one delivery order "
                "(the canonical order or one deviation); every run is an execution of the real nodes; non-trivial = distinct canonical observation (per-subscription receive counts per configuration and delivery order)",
        "level_text": "all labelled connected topologies on 2-3 nodes (quick: plus the six unlabelled 4-node topologies; thorough: all 38 labelled 4-node graphs) x every router vector over {floodsub, randomsub, gossipsub} x role vectors over "
                      "{subscriber, two subscriptions, relay only, publisher only} x churn steps (cancel, unsubscribe-resubscribe inside the backoff, relay, relay-cancel, subscribe, connect, disconnect) x every publisher; the precondition "
                      "(ListPeers / GetTopics equal ground truth after settling) is checked, then one publish is delivered under the canonical link order and under every single deviation from it, followed by HistoryGossip+2 heartbeats; "
                      "every subscription must receive the message exactly once",
        "level_note": "goroutine schedules inside a node between quiescent points are not enumerated; delivery-order deviations are bounded by 1; gossipsub uses D=2,Dlo=1,Dhi=3,Dlazy=6 so that peer selection is exhaustive at these sizes",
        "assumptions": COMMON_ASSUME,
        "design_ref": "DESIGN.md §5 C01",
    },
    "C02": {
        "level": "model_checking", "variants": ["main", "sched"], "shards": 16, "deadline_quick": 110, "deadline_thorough": 1800,
        "engine": "E-SEQ (time cache) + E-WORLD + E-SCHED",
        "technique": "explicit-state model checking of the implementation: BFS by replay of the real time cache (real sweeper, virtual time) vs. an interval reference, around one real node fed racing copies with counting, gated validators (node-wide and per-topic ID functions), and of one MessageBatch reused across PublishBatch calls",
        "rule": WORLD_RULE,
        "level_text": "cache alone: every sequence of Add/Has/advance (delays on both sides of the TTL and of TTL+sweep) for both strategies; node: every history over copies of one message from three peers, a local publish with the same ID "
                      "(content-hash ID function), inline / gated asynchronous validators with 1-2 workers and time advances across TTL and sweep, both strategies; deliveries per subscription and validator invocations per ID are counted "
                      "against must-remember / must-forget intervals",
        "level_note": "between TTL and TTL+sweep either answer is accepted (the model follows the implementation). A free-running pass under the race detector (harness/racepass.go) adds alarms for unsynchronised accesses in this component; it samples schedules and decides nothing by being silent.",
        "assumptions": COMMON_ASSUME,
        "design_ref": "DESIGN.md §5 C02",
    },
    "C03": {
        "level": "exploration", "shards": 16, "deadline_quick": 110, "deadline_thorough": 1800,
        "engine": "E-SEQ inputs through E-WORLD",
        "technique": "bounded-exhaustive input enumeration: every <=k-field tampering of honestly signed messages (4 key types) x 4 signature policies x author / anonymous mode, each fed to a real node through the wire, by a third party and by the peer it names as author; own publications under every policy with node, custom and per-publication keys (a key with its own peer ID, and a key with a peer ID it does not belong to); independent re-implementation of the verification rule as oracle",
        "rule": "cases = (policy, anonymous mode, base message: 4 key types x signed/unsigned) x (all tamperings touching <= k of the fields data, topic, from, seqno, key, signature, unknown bytes with ops drop / empty / flip / swap-from-another-signed-message / re-sign-with-foreign-key); "
                "non-trivial = distinct case that reached the signature / policy decision (carries a signature, or is judged under a non-strict policy, or was accepted)",
        "level_text": "all <=3-field (thorough: <=4-field) tamperings of eight base messages under the four policies crossed with author / anonymous mode are sent by a fake peer to a real node with a second subscriber; "
                      "delivered-or-forwarded implies the independent oracle accepts; untampered admissible messages must be delivered; self-authored messages from others are dropped; "
                      "the node's own publications (default / custom author, per-publish key, two key types each) verify under the same rule",
        "level_note": "universal only over the tampering alphabet; raw byte fuzzing of the frame is C12's business",
        "assumptions": ["go-libp2p crypto primitives (Sign/Verify, key (un)marshalling, peer ID derivation) are correct", "gogo-protobuf encodes fields in field-number order with unknown bytes appended"],
        "design_ref": "DESIGN.md §5 C03",
    },
    "C04": {
        "level": "model_checking", "shards": 16, "deadline_quick": 240, "deadline_thorough": 1800,
        "engine": "E-WORLD",
        "technique": "explicit-state model checking of the implementation: one BFS by replay per validator configuration (the product of placements, modes and verdicts), asynchronous validators gated so that every completion order is a history",
        "rule": WORLD_RULE + "; scenarios = every vector of up to k validators (default/topic x inline/asynchronous x {Accept, Reject, Ignore, out-of-range}) plus timeout shapes",
        "level_text": "for every validator vector up to k (quick 3, thorough 4) every history over a remote copy, a duplicate from a second forwarder injected at every point, release of the gated asynchronous validators in every order, "
                      "a validator timeout that fires, and a local publication; delivery, forwarding, the invalid-delivery counters of every forwarder and the return value of Publish are judged against the statement's decision table",
        "level_note": "global/per-topic throttle exhaustion is not driven yet; k>4 is not enumerated",
        "assumptions": COMMON_ASSUME,
        "design_ref": "DESIGN.md §5 C04",
    },
    "C05": {
        "level": "model_checking", "shards": 16, "deadline_quick": 110, "deadline_thorough": 1800,
        "engine": "E-WORLD",
        "technique": "explicit-state model checking of the implementation: BFS by replay around one real node (floodsub, gossipsub) with two observer peers; a quiescence leaf (open gates, let retries fire) judges wire view and ListPeers at every explored state",
        "rule": WORLD_RULE + "; at every state the leaf event 'quiesce' is applied",
        "level_text": "every history up to the depth bound over Subscribe (two per topic) / Cancel / Relay / relay-cancel / Topic.Close on two topics, connect / whole-peer disconnect, outbound streams that come up late or fail, "
                      "single-direction stream resets with the connection kept, one-slot queues with gated writes (announceRetry), remote subscribe/unsubscribe and time advances; at every state, once quiet, "
                      "the last subscription option each observer saw on its current stream must equal the node's true interest and ListPeers must equal the connected interested peers",
        "level_note": "observers are scripted peers (they do not re-announce spontaneously, like a real node whose own outbound stream stayed up); goroutine-level races between the hello packet and queued announcements inside one step are not enumerated",
        "assumptions": COMMON_ASSUME,
        "design_ref": "DESIGN.md §5 C05",
    },
    "C06": {
        "level": "model_checking", "shards": 12, "deadline_quick": 150, "deadline_thorough": 1500,
        "engine": "E-WORLD",
        "technique": "explicit-state model checking of the implementation: BFS by replay around one real node (three routers) with scripted peers of five protocol versions; recipient-set oracle on the wire log",
        "rule": WORLD_RULE,
        "level_text": "every history up to the depth bound over subscriptions, GRAFT/PRUNE, IDONTWANT, score levels on both sides of the publish threshold, direct peers, join/leave/relay, "
                      "heartbeats and fanout expiry, followed by remote / local / local-only publications under gossipsub (with and without flood publishing), floodsub and randomsub; "
                      "never-set, always-set and byte-equality of every copy are judged from the pre-publish in-loop snapshot",
        "level_note": "acceptance is decided by an independent oracle (subscription, dedup, self-origin, graylist, blacklist); the inclusion rules are only required where an ungated outbound queue exists",
        "assumptions": COMMON_ASSUME,
        "design_ref": "DESIGN.md §5 C06",
    },
    "C07": {
        "level": "model_checking", "shards": 16, "deadline_quick": 100, "deadline_thorough": 1500,
        "engine": "E-WORLD",
        "technique": "explicit-state model checking of the implementation: BFS by replay around one real gossipsub node; explorer-owned shuffle outcomes (deviation bound 1 per event)",
        "rule": WORLD_RULE,
        "level_text": "every history up to the depth bound over peer churn, remote GRAFT/PRUNE, join/leave, score changes, heartbeats and time advances, "
                      "from scratch and from seeded over-/under-subscribed meshes, for six accepted parameter sets, with every single-deviation shuffle outcome; "
                      "all mesh clauses of the statement are evaluated on in-loop snapshots before/after every event and on the wire log",
        "level_note": "bounded depth and peer count; shuffle outcomes with >1 deviation from sorted order per event are not explored",
        "assumptions": COMMON_ASSUME,
        "design_ref": "DESIGN.md §5 C07",
    },
    "C08": {
        "level": "model_checking", "shards": 8, "deadline_quick": 100, "deadline_thorough": 1500,
        "engine": "E-WORLD",
        "technique": "explicit-state model checking of the implementation: BFS by replay around one real gossipsub node with a per-(peer,topic) backoff monitor automaton fed by the wire log in virtual time",
        "rule": WORLD_RULE,
        "level_text": "every history up to the depth bound over join/leave, heartbeat, remote GRAFT/PRUNE with and without explicit backoff, departures/returns, "
                      "dropped-and-retried control (queue size 1, gated writes) and time advances on both sides of the deadlines and across the 15-tick sweep; "
                      "a monitor flags any GRAFT on the wire before the applicable deadline and checks refusal, penalty and refresh on GRAFT-during-backoff",
        "level_note": "the monitor's deadlines are lower bounds of the obligation (decision time >= start of the step); frames released from a blocked write are not judged",
        "assumptions": COMMON_ASSUME,
        "design_ref": "DESIGN.md §5 C08",
    },
    "C09": {
        "level": "model_checking", "shards": 10, "deadline_quick": 100, "deadline_thorough": 1500,
        "engine": "E-WORLD",
        "technique": "explicit-state model checking of the implementation: BFS by replay around one real gossipsub node with peer scoring; every threshold is approached from both sides and at equality through the application-specific score",
        "rule": WORLD_RULE,
        "level_text": "every history up to the depth bound over score levels below / at / above the graylist, gossip, publish, zero and accept-PX thresholds, each RPC kind from scored and direct peers, "
                      "PRUNE with peer exchange (valid record, record of another peer, garbage, no record, wrong-domain envelope), local publishes, join/leave and heartbeats; "
                      "the statement's table is judged on wire log, in-loop snapshots and recorded host.Connect attempts",
        "level_note": "the validation-overload gater clause is not driven yet (no throttling scenario); PX entries without a record are not judged",
        "assumptions": COMMON_ASSUME,
        "design_ref": "DESIGN.md §5 C09",
    },
    "C10": {
        "level": "model_checking", "shards": 16, "deadline_quick": 110, "deadline_thorough": 1800,
        "engine": "E-SEQ on the real peerScore",
        "technique": "explicit-state model checking of the implementation: BFS by replay of the real peerScore (driven through its tracer/router entry points, stub host for IPs, virtual clock) in lock-step with an independently written reference implementation of the v1.1 scoring function",
        "rule": "state = canonical dump of the real peerScore (all counters, delivery records, IP tracking) + harness inputs (app scores, IP assignment, connections, clock phase); a transition is one scoring event; "
                "non-trivial = distinct canonical observation log (the scores after every event)",
        "level_text": "every history up to the depth bound over connect / disconnect / reconnect, graft / prune (scored and unscored topic), validate, deliver, reject with six reasons, duplicates before / inside / outside the delivery window, "
                      "behaviour penalties, decay ticks, delivery-record gc, cap-lowering parameter updates, IP (re)assignment with colocation and whitelist, application score changes and time advances on both sides of quantum, activation, window and retention, "
                      "for two full parameter sets, a peer-level partially specified set and the SkipAtomicValidation subsets of topic parameter groups; score and every counter are compared with the reference after every event, plus sign / cap / NaN invariants; "
                      "a second part starts a real node with every accepted parameter set",
        "level_note": "mesh time and activation are sampled at decay ticks in both implementation and reference (documented optimisation); equality is asserted after every event",
        "assumptions": COMMON_ASSUME + ["the reference model in harness/c10.go is a faithful reading of the GossipSub v1.1 scoring specification"],
        "design_ref": "DESIGN.md §5 C10",
    },
    "C11": {
        "level": "exploration", "shards": 16, "deadline_quick": 100, "deadline_thorough": 1500,
        "engine": "E-SEQ (inputs)",
        "technique": "bounded-exhaustive input enumeration: every RPC shape of a finite alphabet x every integer size limit, through the real RPC.split and the real sendRPC + queue",
        "rule": "cases = (RPC shape from the product of per-kind content lists) x (every integer limit 1..size+2) through RPC.split, plus a band of limits through "
                "GossipSubRouter.sendRPC into a real gated queue; non-trivial = distinct (shape, limit) whose split yields more than one fragment",
        "level_text": "the whole product of a finite shape alphabet (messages of several sizes, subscriptions, all six control kinds, extension / partial / test-extension fields) "
                      "with every integer limit from 1 to size+2 is pushed through the real splitter and judged by a canonical content multiset oracle; "
                      "a sub-family also goes through the real sendRPC into a real outbound queue",
        "level_note": "universal only over the enumerated shape alphabet; element sizes are representative, not all sizes",
        "assumptions": ["gogo-protobuf Size()/Marshal() are consistent", "the shape alphabet is representative of RPC structure (sizes are not)"],
        "design_ref": "DESIGN.md §5 C11",
    },
    "C12": {
        "level": "exploration", "shards": 16, "deadline_quick": 110, "deadline_thorough": 1800,
        "engine": "E-WORLD, worker-process isolation",
        "technique": "bounded-exhaustive input enumeration: every proper prefix, every single-byte substitution from {00,01,7f,80,ff} and every length-prefix variant of a frame corpus, plus all <=2-field adversarial deviations of every RPC kind, each against a fresh real node in its own execution; a crash is attributed through an in-flight marker",
        "rule": "cases = (router, attacker protocol) x (frame mutations of a 5-frame corpus covering all RPC kinds | field-deviation RPCs from 9 templates x 13 adversarial values); every case is a distinct input that reaches the stream reader / RPC handlers, so non-trivial = distinct case executed",
        "level_text": "every enumerated byte stream / hostile RPC is written to an inbound stream of a fresh real node (gossipsub with scoring, gater, PX, extensions, partial messages and the sequence-number validator; floodsub; randomsub) by peers of every protocol version, "
                      "optionally after a benign subscribe+GRAFT; the worker must survive, the event loop and API must answer, an honest peer's message must still be delivered, bystander streams must stay up, and oversized / undecodable / truncated frames must reset the stream they arrived on",
        "level_note": "universal only over the enumerated mutations; sequences longer than setup+1 hostile RPC are not enumerated",
        "assumptions": ["a panic in any goroutine terminates the worker process (Go semantics), so survival of the worker means no panic"],
        "design_ref": "DESIGN.md §5 C12",
    },
    "C13": {
        "level": "model_checking", "shards": 10, "deadline_quick": 150, "deadline_thorough": 1800,
        "engine": "E-WORLD",
        "technique": "explicit-state model checking of the implementation: BFS by replay over the life of one remote peer, with a retention suffix and an implementation-agnostic reflection scan of the whole object graph at every explored state",
        "rule": WORLD_RULE + "; at every state the leaf event 'retire' (close everything of the peer, advance 12.5 virtual minutes with heartbeats, scan) is applied",
        "level_text": "every history up to the depth bound over connect / disconnect, blocked, failing and late stream establishment, inbound close / reset / reopen, outbound reset, every RPC kind, "
                      "a message parked in validation that outlives the peer, for peers of all five protocol versions, with scoring, gater, extensions and connection-manager tagging enabled; "
                      "after the retention suffix a reflection scan of everything reachable from the PubSub object (and the conn manager) must not find the peer's ID anywhere",
        "level_note": "excluded from the scan: the configured blacklist, the host's peerstore (stub), buffered application data inside subscription channels, harness tracers",
        "assumptions": COMMON_ASSUME,
        "design_ref": "DESIGN.md §5 C13",
    },
    "C14": {
        "level": "fault_enumeration", "shards": 14, "deadline_quick": 110, "deadline_thorough": 1800,
        "engine": "E-WORLD as crash-point enumeration",
        "technique": "exhaustive cancellation-point enumeration over the implementation: BFS by replay builds every order of concurrent API calls and gate events up to the depth bound and cancels the constructor context at every quiescent point of every order; after the cancellation every API call is made again and a lock scan (TryLock on every mutex of the library's object graph) runs once all calls have returned",
        "rule": "cases = (router x discovery on/off) x (every history up to the depth bound over ~24 API calls each issued from its own goroutine, remote message into a gated validator, blocked write, late stream) x cancellation at every quiescent point; "
                "non-trivial = distinct canonical observation log (which calls were parked at the cancellation point)",
        "level_text": "at every quiescent point of every explored order the context is cancelled, the host's streams are closed and virtual time advances 75 s; every call in flight must return (own-context calls once that context is cancelled), "
                      "every API call issued 40 more times must return, and the goroutine dump of the synctest bubble must contain no goroutine created by the library",
        "level_note": "cancellation between two instructions of one event-loop handler is not a separate point (handlers run to completion on the loop); the discovery backend is a stub",
        "assumptions": COMMON_ASSUME,
        "design_ref": "DESIGN.md §5 C14",
    },
    "C15": {
        "level": "model_checking", "variants": ["main", "sched"], "shards": 16, "deadline_quick": 90, "deadline_thorough": 900,
        "engine": "E-SEQ + E-SCHED",
        "technique": "model checking of the implementation: (a) explicit-state BFS by replay over the real rpcQueue vs. a reference model, (b) controlled-scheduler exploration (preemption-bounded, then unbounded with a state cache) of every interleaving of concurrent pushers, poppers, cancellers and closers with a linearizability oracle; plus a free-running -race pass of the same operations for unsynchronised accesses the cooperative scheduler cannot see (sampling, alarms only)",
        "rule": "state = canonical dump of the real queue + pending calls + cancelled contexts; a transition is one queue operation run to quiescence in a "
                "synctest bubble; non-trivial = distinct canonical observation log of an execution",
        "level_text": "every sequence of queue operations up to the depth bound (pending blocking calls are part of the state) is executed on the real rpcQueue "
                      "for capacities 1..3 and compared with a reference model after every step",
        "level_note": "trusts synctest quiescence detection and the reference model in harness/c15seq.go. A free-running pass under the race detector (harness/racepass.go) adds alarms for unsynchronised accesses in this component; it samples schedules and decides nothing by being silent.",
        "assumptions": COMMON_ASSUME,
        "design_ref": "DESIGN.md §5 C15",
    },
    "C16": {
        "level": "model_checking", "shards": 7, "deadline_quick": 100, "deadline_thorough": 1500,
        "engine": "E-WORLD",
        "technique": "explicit-state model checking of the implementation: BFS by replay around one real node (gossipsub, floodsub; map and time-cached blacklist) with the blacklisting call tried at every position of the peer's lifecycle",
        "rule": WORLD_RULE,
        "level_text": "every history up to the depth bound over the lifecycle of a bad peer and two bystanders (connect, blocked NewStream released later, subscribe, GRAFT, disconnect, reconnect), "
                      "messages sent by it / authored by it and forwarded by a third party / unrelated, a message parked in gated asynchronous validation, with BlacklistPeer or a direct Add to the blacklist "
                      "implementation tried at every point; deliveries, forwards, traffic towards the peer, queue/topic/mesh/fanout membership and refusal of later-completing streams are judged",
        "level_note": "messages already inside the validation pipeline at the blacklisting moment are counted, not judged (DESIGN.md §5.1)",
        "assumptions": COMMON_ASSUME,
        "design_ref": "DESIGN.md §5 C16",
    },
    "C17": {
        "level": "model_checking", "shards": 10, "deadline_quick": 100, "deadline_thorough": 1500,
        "engine": "E-SEQ (mcache) + E-WORLD",
        "technique": "explicit-state model checking of the implementation: BFS by replay of the real MessageCache vs. a list-of-lists reference, and around one real gossipsub node with a window/cap monitor on the wire log",
        "rule": WORLD_RULE,
        "level_text": "every mcache operation sequence up to the depth bound for three (gossip,history) settings; every node history up to the depth bound over forwards, local publishes, heartbeats, "
                      "IHAVE / IWANT / IDONTWANT with repetition beyond every cap, score levels on both sides of the gossip threshold and time advances across the promise follow-up time; "
                      "window arithmetic in heartbeats, per-heartbeat counter reset, IWANT service rules, IDONTWANT emission/TTL and the if-and-only-if of promise penalties are judged from the wire log and snapshots",
        "level_note": "parameter sets: HistoryLength 3 / HistoryGossip 2 and the default length 5 with a gossip window of 1 (`window-hg1`); a full validation queue is driven with the queue full for the whole scenario (`promises-queue-full`), a promised message that WAITS in the queue past the follow-up time is not driven (DESIGN.md section 9); IHAVE completeness is only required where peer selection is exhaustive (<= Dlazy eligible peers); IDONTWANT TTL and flood-protection counters are read from the router state",
        "assumptions": COMMON_ASSUME,
        "design_ref": "DESIGN.md §5 C17",
    },
    "C18": {
        "level": "model_checking", "shards": 6, "deadline_quick": 100, "deadline_thorough": 1200,
        "engine": "E-WORLD",
        "technique": "explicit-state model checking of the implementation: BFS by replay around one real node with scripted peers",
        "rule": WORLD_RULE,
        "level_text": "every history up to the depth bound over remote subscribe/unsubscribe/disconnect/reconnect of two peers, handler creation/cancellation and "
                      "NextPeerEvent calls issued as blocking calls that stay pending across later events (and their cancellation); fold, alternation and lost-wake-up oracles "
                      "after every event, full drain at the end of every history",
        "level_note": "interleavings inside the two lock-protected sections of the event log are not enumerated (channel-based signalling)",
        "assumptions": COMMON_ASSUME,
        "design_ref": "DESIGN.md §5 C18",
    },
    "C19": {
        "level": "model_checking", "shards": 9, "deadline_quick": 110, "deadline_thorough": 1800,
        "engine": "E-WORLD",
        "technique": "explicit-state model checking of the implementation: BFS by replay around one real node (all three routers) with an in-memory EventTracer whose events drive a trace replayer compared with the node at every state",
        "rule": WORLD_RULE,
        "level_text": "every history up to the depth bound over join / leave / relay (two topics, two subscriptions, fanout-only topic), peer churn, remote control, publications, heartbeats and stream resets under floodsub, randomsub and gossipsub; "
                      "after every event the state rebuilt from the trace (joined topics, peer set, meshes), DELIVER / PUBLISH multiplicities and SEND_RPC metadata are compared with the node and the frames actually received",
        "level_note": "in-memory tracer only (the JSON / protobuf file tracers' writer loops are not driven); DROP_RPC is counted but not matched one-to-one",
        "assumptions": COMMON_ASSUME,
        "design_ref": "DESIGN.md §5 C19",
    },
    "C20": {
        "level": "model_checking", "variants": ["main", "sched"], "shards": 8, "deadline_quick": 110, "deadline_thorough": 1800,
        "engine": "E-WORLD + E-SCHED",
        "technique": "model checking of the implementation: (a) controlled-scheduler exploration of every interleaving of concurrent BasicSeqnoValidator calls (store Get/Put are scheduling points), "
                     "(b) explicit-state BFS by replay around a real node with the validator installed",
        "rule": WORLD_RULE + "; thread part: state = per-thread progress + lock model + store contents + call/return history",
        "level_text": "threads: 2-3 concurrent validator calls for one author over seqnos {0,1,2,2,MAX}, all interleavings (preemption bound 2|3, then unbounded with state caching); "
                      "node: every arrival order up to the depth bound of messages with seqnos {1,2,2',3,MAX,0}, absent / 3-byte / 9-byte encodings, several forwarders, 1-2 workers, a gated validator behind it, "
                      "and replays after the seen window expired; nonce monotonicity, accepted => committed, and no penalty for ignored replays are judged",
        "level_note": "the metadata store is an in-memory map supplied by the harness; store faults are enumerated for Get only (the k-th Get of an execution fails, every k, under every schedule: two scenario families), Put never fails. A free-running pass under the race detector (harness/racepass.go) adds alarms for unsynchronised accesses in this component; it samples schedules and decides nothing by being silent.",
        "assumptions": COMMON_ASSUME,
        "design_ref": "DESIGN.md §5 C20",
    },
}

NOT_YET = "check not built yet in this round (planned: DESIGN.md §5); not claimed"
