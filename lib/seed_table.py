#!/usr/bin/env python3
"""Prints the markdown table of independently seeded changes from /verif/seeded/*/meta.json."""
import json, glob, os
DESC = json.load(open(os.path.join(os.path.dirname(__file__), "seed_descriptions.json")))
print("| seed (directory under /verif/seeded) | the change | needs, to manifest | demo fails with / suite passes with / demo passes without | caught by (fingerprints) |")
print("|---|---|---|---|---|")
for d in sorted(glob.glob("/verif/seeded/*/")):
    n = os.path.basename(d.rstrip("/"))
    mp = d + "meta.json"
    if not os.path.exists(mp):
        continue
    m = json.load(open(mp))
    if "confirmed" not in m:
        what, needs = DESC.get(n, ["", ""])
        print("| %s | %s | %s | (not confirmed separately) | %s |" % (n, what, needs, m.get("note", "")))
        continue
    c = m["confirmed"]
    conf = "/".join("yes" if c[k] else "NO" for k in ("demo_fails_with_change", "suite_passes_with_change", "demo_passes_without_change"))
    by = []
    for k, v in sorted(m["our_checks"].items()):
        fps = ", ".join("`%s`" % f.replace("|", "\\|")[:70] for f in v["fingerprints"][:3])
        by.append("%s %s%s" % (k, "(exit %d) " % v["exit"] if v["exit"] != 1 else "", fps))
    what, needs = DESC.get(n, ["", ""])
    print("| %s | %s | %s | %s | %s |" % (n, what, needs, conf, "; ".join(by)))
