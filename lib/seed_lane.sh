#!/bin/bash
# usage: seed_lane.sh <lane-dir> <property-id> <seed-name> [extra check ids...]
# Re-runs our checks against an already confirmed seeded change in a LANE, so that several seeds can be re-run in
# parallel and /verif can be edited meanwhile: <lane-dir>/verif is a snapshot copy of /verif (without .build),
# <lane-dir>/repo a scratch worktree of /repo at its HEAD. The patch is applied to the lane's worktree, never to
# /repo; results (check logs, meta.json) are written to <lane-dir>/verif/seeded/<seed-name>/ and copied back to
# /verif/seeded/<seed-name>/ by the caller. (The FIRST confirmation of every seed is done by seed_confirm.sh against
# /repo itself.)
set -u
LANE=$1; ID=$2; NAME=$3; shift 3
EXTRA="$@"
V=$LANE/verif; R=$LANE/repo
OUT=$V/seeded/$NAME
[ -f $OUT/patch.diff ] || { echo "no patch for $NAME"; exit 2; }
DEMO=$(grep -o 'func Test[A-Za-z0-9_]*' $OUT/zz_demo_test.go | head -1 | sed 's/func //')
read RW RS RO < $OUT/wt_rc.txt
cd $V
git -C $R status --short | grep -q . && { echo "lane worktree is dirty, refusing"; exit 2; }
git -C $R apply $OUT/patch.diff || { echo "PATCH DOES NOT APPLY to lane worktree"; exit 4; }
RES=""
for C in $ID $EXTRA; do
  VF_REPO=$R ./vf check $C > $OUT/check_$C.log 2>&1; RC=$?
  RES="$RES $C:$RC"
done
git -C $R checkout -- .
HEADC=$(git -C $R rev-parse --short HEAD)
python3 - "$ID" "$NAME" "$DEMO" "$RW" "$RS" "$RO" "$RES" "$OUT" "$HEADC" <<'PY'
import json,sys,os,re
pid,name,demo,rw,rs,ro,res,out,headc=sys.argv[1:10]
checks={}
try:
    checks=json.load(open(out+'/meta.json')).get('our_checks',{})   # results of checks not re-run now are kept as they were
except Exception:
    pass
rerun=[]
for tok in res.split():
    c,rc=tok.split(':')
    log=open('%s/check_%s.log'%(out,c)).read()
    checks[c]={"exit":int(rc),"fingerprints":sorted(set(re.findall(r'fingerprint=(\S+)',log)))[:6]}
    rerun.append(c)
meta={"property":pid,"seed":name,"demonstration_test":demo,
 "confirmed":{"demo_fails_with_change":int(rw)!=0,"suite_passes_with_change":int(rs)==0,"demo_passes_without_change":int(ro)==0},
 "our_checks":checks,
 "checks_rerun_against_final_harness":rerun,
 "what_it_needs":"see NOTES.md (written by the independent sub-agent that seeded the change)",
 "ran":["go test -run ^%s$ . (with / without patch, scratch worktree)"%demo,"go test -mod=mod -vet=off -count=1 -timeout 25m ./... (with patch, scratch worktree)",
        "first confirmation: git -C /repo apply patch.diff; ./vf check <id>; git -C /repo checkout -- .",
        "final re-run against the final harness: patch applied to a scratch worktree of /repo at HEAD %s, VF_REPO=<worktree> ./vf check <id> from a snapshot copy of /verif (lib/seed_lane.sh)"%headc]}
json.dump(meta,open(out+'/meta.json','w'),indent=1)
print(name, json.dumps(meta["confirmed"]), {k:v["exit"] for k,v in checks.items()})
PY
