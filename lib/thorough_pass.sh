#!/bin/bash
# usage (from a /verif checkout or snapshot): lib/thorough_pass.sh <summary-log> <tier> <ids...>
# runs the given tier of each check in turn from the current directory, one summary line each
LOG=$1; TIER=$2; shift 2
mkdir -p .build
for id in "$@"; do
  s=$(date +%s)
  ./vf check $id --tier $TIER > .build/pass_${TIER}_$id.log 2>&1; rc=$?
  echo "$id tier=$TIER rc=$rc wall=$(( $(date +%s) - s ))s violations=$(grep -c '^VIOLATION' .build/pass_${TIER}_$id.log) $(grep '^\[vf\] C' .build/pass_${TIER}_$id.log | tail -1 | cut -c1-220)" >> $LOG
  grep -h "^VIOLATION\|^HARNESS-ERROR\|fingerprint=" .build/pass_${TIER}_$id.log | head -6 >> $LOG
done
echo DONE >> $LOG
