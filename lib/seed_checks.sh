#!/bin/bash
# usage: seed_checks.sh <seed-dir-name> <check ids...>   -- apply the seeded patch to /repo, run our checks, undo it
# (/repo is used exclusively: the whole thing runs under /tmp/repo.lock, like lib/seed_confirm.sh's /repo phase)
NAME=$1; shift
OUT=/verif/seeded/$NAME
[ -f $OUT/patch.diff ] || { echo "no patch for $NAME"; exit 2; }
cd /verif
(
flock 9
git -C /repo status --short | grep -q . && { echo "/repo is dirty, refusing"; exit 2; }
git -C /repo apply $OUT/patch.diff || { echo "PATCH DOES NOT APPLY to /repo"; exit 4; }
for C in "$@"; do
  timeout 1500 ./vf check $C > $OUT/check_$C.log 2>&1; RC=$?
  FP=$(grep -o 'fingerprint=[^ ]*' $OUT/check_$C.log | sort -u | head -4 | tr '\n' ' ')
  echo "$NAME: check $C rc=$RC $FP"
done
git -C /repo checkout -- .
git -C /repo status --short | head -3
) 9>/tmp/repo.lock
