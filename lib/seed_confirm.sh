#!/bin/bash
# usage: seed_confirm.sh <property-id> <worktree> <seed-name> [extra check ids...]
# Confirms an independently seeded change: demo fails with / passes without the change in the scratch
# worktree, the repository suite passes with it, and records which of our checks catch it.
set -u
ID=$1; WT=$2; NAME=$3; shift 3
EXTRA="$@"
export GOFLAGS=-mod=mod GOPROXY=off
OUT=/verif/seeded/$NAME
mkdir -p $OUT
if [ -d $WT/OUT ]; then   # (the scratch worktree is gone once a seed has been confirmed: MODE=checks then works from $OUT alone)
cp $WT/OUT/patch.diff $OUT/patch.diff
cp $WT/OUT/zz_demo_test.go $OUT/zz_demo_test.go 2>/dev/null || cp $WT/zz_demo_test.go $OUT/zz_demo_test.go
cp $WT/OUT/NOTES.md $OUT/NOTES.md 2>/dev/null
fi
DEMO=$(grep -o 'func Test[A-Za-z0-9_]*' $OUT/zz_demo_test.go | head -1 | sed 's/func //')
MODE=${MODE:-all}
if [ "$MODE" != "checks" ]; then
cd $WT
# make sure the worktree has exactly the patch applied on top of its HEAD
git checkout -q -- . 2>/dev/null
git apply $OUT/patch.diff || { echo "PATCH DOES NOT APPLY in worktree"; exit 3; }
cp $OUT/zz_demo_test.go $WT/zz_demo_test.go
echo "== demo WITH change (expect FAIL)"
go test -mod=mod -vet=off -count=1 -timeout 10m -run "^${DEMO}\$" . > $OUT/demo_with.log 2>&1; RW=$?
tail -3 $OUT/demo_with.log
echo "== suite WITH change (expect PASS)"
mv $WT/zz_demo_test.go /tmp/zz_demo_$NAME.go; mv $WT/OUT $WT/_OUT
go test -mod=mod -vet=off -count=1 -timeout 25m ./... > $OUT/suite_with.log 2>&1; RS=$?
# the Go 1.25.0 runtime occasionally livelocks in its GC under synctest on a loaded machine (one test spins until the
# 25 min timeout), and TestJSONTracer/TestPBTracer share fixed /tmp paths with concurrent runs: rerun once in those cases
if [ $RS -ne 0 ] && grep -q "test timed out\|ran too long\|signal: \|TestJSONTracer\|TestPBTracer" $OUT/suite_with.log; then
  cp $OUT/suite_with.log $OUT/suite_with.first_attempt.log
  go test -mod=mod -vet=off -count=1 -timeout 25m ./... > $OUT/suite_with.log 2>&1; RS=$?
fi
tail -3 $OUT/suite_with.log
mv /tmp/zz_demo_$NAME.go $WT/zz_demo_test.go; mv $WT/_OUT $WT/OUT
git apply -R $OUT/patch.diff
echo "== demo WITHOUT change (expect PASS)"
go test -mod=mod -vet=off -count=1 -timeout 10m -run "^${DEMO}\$" . > $OUT/demo_without.log 2>&1; RO=$?
tail -3 $OUT/demo_without.log
git apply $OUT/patch.diff
echo "demo_with_rc=$RW suite_with_rc=$RS demo_without_rc=$RO"
echo "$RW $RS $RO" > $OUT/wt_rc.txt
fi
if [ "$MODE" = "wt" ]; then exit 0; fi
read RW RS RO < $OUT/wt_rc.txt
# our checks against the change, applied to /repo itself and undone straight afterwards
cd /verif
RES=""
git -C /repo apply $OUT/patch.diff || { echo "PATCH DOES NOT APPLY to /repo"; exit 4; }
for C in $ID $EXTRA; do
  ./vf check $C > $OUT/check_$C.log 2>&1; RC=$?
  FP=$(grep -o 'fingerprint=[^ ]*' $OUT/check_$C.log | head -3 | tr '\n' ' ')
  echo "check $C rc=$RC $FP"
  RES="$RES $C:$RC"
done
git -C /repo checkout -- .
git -C /repo status --short | head -3
python3 - "$ID" "$NAME" "$DEMO" "$RW" "$RS" "$RO" "$RES" <<'PY'
import json,sys,os,re
pid,name,demo,rw,rs,ro,res=sys.argv[1:8]
out='/verif/seeded/'+name
checks={}
for tok in res.split():
    c,rc=tok.split(':'); 
    log=open('%s/check_%s.log'%(out,c)).read()
    checks[c]={"exit":int(rc),"fingerprints":sorted(set(re.findall(r'fingerprint=(\S+)',log)))[:6]}
notes=open(out+'/NOTES.md').read() if os.path.exists(out+'/NOTES.md') else ''
meta={"property":pid,"seed":name,"demonstration_test":demo,
 "confirmed":{"demo_fails_with_change":int(rw)!=0,"suite_passes_with_change":int(rs)==0,"demo_passes_without_change":int(ro)==0},
 "our_checks":checks,
 "what_it_needs":"see NOTES.md (written by the independent sub-agent that seeded the change)",
 "ran":["go test -run ^%s$ . (with / without patch, scratch worktree)"%demo,"go test -mod=mod -vet=off -count=1 -timeout 25m ./... (with patch, scratch worktree)","git -C /repo apply patch.diff; ./vf check <id>; git -C /repo checkout -- ."]}
json.dump(meta,open(out+'/meta.json','w'),indent=1)
print(json.dumps(meta["confirmed"]), {k:v["exit"] for k,v in checks.items()})
PY
rm -f $OUT/suite_with.log.tmp
