#!/bin/bash
# usage: seed_one.sh <worktree-root> <ID> <seed-name> [extra check ids]
# Full confirmation of one independently seeded change whose scratch worktree is <worktree-root>/<ID>:
# worktree phase (demo with / suite with / demo without), then the /repo phase under the repo lock.
ROOT=$1; ID=$2; NAME=$3; shift 3
cd /verif
MODE=wt ./lib/seed_confirm.sh $ID $ROOT/$ID $NAME > /tmp/seed_${NAME}_wt.log 2>&1
( flock 9; MODE=checks ./lib/seed_confirm.sh $ID $ROOT/$ID $NAME "$@" > /tmp/seed_${NAME}_ck.log 2>&1 ) 9>/tmp/repo.lock
echo "$ID $NAME wt:[$(cat /verif/seeded/$NAME/wt_rc.txt)] $(tail -1 /tmp/seed_${NAME}_ck.log)" >> /tmp/seed3_summary.log
